package index

// Finding 4 (C05): the parser rewrites a regular expression that is a single
// literal into a query.Substring, and drops the literal's case-insensitive
// flag while doing so. regexp/syntax stores such a literal upper-cased
// ("(?i)foo" is Literal{"FOO", FoldCase}), so the rewritten query is the
// case-SENSITIVE substring "FOO": `(?i)foo` no longer finds "foo". The same
// happens to `[Ff]`, which regexp/syntax also represents as a folded literal.
// The un-rewritten form of the same expression (anything that is not a bare
// literal, e.g. `(?i)foo.*`) keeps the flag and behaves correctly.
//
// Place in: index/   Run: go test -vet=off -count=1 -run TestHuntDInlineFoldLiteral ./index/

import (
	"context"
	"regexp"
	"sort"
	"testing"

	"github.com/sourcegraph/zoekt"
	"github.com/sourcegraph/zoekt/query"
)

func TestHuntDInlineFoldLiteral(t *testing.T) {
	docs := map[string]string{
		"lower.txt": "foo",
		"mixed.txt": "Foo",
		"upper.txt": "FOO",
		"f.txt":     "f",
		"none.txt":  "bar",
	}
	b := testShardBuilder(t, nil)
	for _, name := range []string{"f.txt", "lower.txt", "mixed.txt", "none.txt", "upper.txt"} {
		if err := b.Add(Document{Name: name, Content: []byte(docs[name])}); err != nil {
			t.Fatal(err)
		}
	}
	s := searcherForTest(t, b)

	for _, tc := range []struct {
		query  string // zoekt query string
		regexp string // what the atom means as a regular expression
	}{
		{`c:(?i)foo`, `(?i)foo`},
		{`c:(?i:foo)`, `(?i:foo)`},
		{`c:(?i)foo case:yes`, `(?i)foo`}, // an inline flag is more specific than case:
		{`c:[Ff]`, `[Ff]`},
		// control: the same atom in a shape that is kept as a regexp
		{`c:(?i)foo.*`, `(?i)foo.*`},
		{`c:[Ff]o`, `[Ff]o`},
	} {
		ref := regexp.MustCompile(tc.regexp)
		want := []string{}
		for name, content := range docs {
			if ref.MatchString(content) {
				want = append(want, name)
			}
		}
		sort.Strings(want)

		q, err := query.Parse(tc.query)
		if err != nil {
			t.Fatal(err)
		}
		res, err := s.Search(context.Background(), q, &zoekt.SearchOptions{})
		if err != nil {
			t.Fatal(err)
		}
		got := []string{}
		for _, f := range res.Files {
			got = append(got, f.FileName)
		}
		sort.Strings(got)

		if len(got) != len(want) {
			t.Errorf("query string %q parsed as %s:\n got  %v\n want %v (documents matching %s)", tc.query, q, got, want, tc.regexp)
			continue
		}
		for i := range got {
			if got[i] != want[i] {
				t.Errorf("query string %q parsed as %s:\n got  %v\n want %v (documents matching %s)", tc.query, q, got, want, tc.regexp)
				break
			}
		}
	}
}
