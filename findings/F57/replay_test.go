package search

// Finding 1 (C11): one flipped bit in the table of contents of a shard crashes
// the loader instead of producing a load error.
//
// Belongs in: search/   (package search)

import (
	"bytes"
	"context"
	"fmt"
	"os"
	"path/filepath"
	"runtime/debug"
	"testing"
	"time"

	"github.com/sourcegraph/zoekt"
	"github.com/sourcegraph/zoekt/index"
	"github.com/sourcegraph/zoekt/query"
)

func huntHSmallShard(t *testing.T, name string, id uint32) []byte {
	t.Helper()
	b, err := index.NewShardBuilder(&zoekt.Repository{
		ID:       id,
		Name:     name,
		Branches: []zoekt.RepositoryBranch{{Name: "HEAD", Version: "v1"}},
	})
	if err != nil {
		t.Fatal(err)
	}
	for _, d := range []index.Document{
		{Name: "f1.go", Content: []byte("package main\nfunc needle() {}\n"), Branches: []string{"HEAD"}},
		{Name: "dir/f2.txt", Content: []byte("haystack needle haystack\nsecond line\n"), Branches: []string{"HEAD"}},
	} {
		if err := b.Add(d); err != nil {
			t.Fatal(err)
		}
	}
	var buf bytes.Buffer
	if err := b.Write(&buf); err != nil {
		t.Fatal(err)
	}
	return buf.Bytes()
}

// TestHuntH_C11_FlippedTOCTagCrashesLoader flips the lowest bit of the first
// byte of the TOC tag "fileNames" ('f' 0x66 -> 'g' 0x67) in an otherwise
// healthy two-document shard and loads it exactly like loader.load does
// (loadShard, then mkRankedShard). The property demands: either an error, or a
// shard that can be served. The code panics in calculateStatsForFileRange.
//
// loader.load runs loadShard in a bare goroutine (no recover), so in the real
// server this panic terminates the whole process, taking the healthy shards in
// the directory with it.
func TestHuntH_C11_FlippedTOCTagCrashesLoader(t *testing.T) {
	dir := t.TempDir()

	healthy := filepath.Join(dir, "healthy_v16.00000.zoekt")
	if err := os.WriteFile(healthy, huntHSmallShard(t, "healthy", 1), 0o644); err != nil {
		t.Fatal(err)
	}

	data := huntHSmallShard(t, "victim", 2)
	off := bytes.LastIndex(data, []byte("fileNames"))
	if off < 0 {
		t.Fatal("tag fileNames not found in TOC")
	}
	if data[off-1] != byte(len("fileNames")) {
		t.Fatalf("byte before the tag is %d, expected the varint length 9", data[off-1])
	}
	data[off] ^= 0x01 // "fileNames" -> "gileNames"
	t.Logf("shard is %d bytes; flipped bit 0 of byte at offset %d (TOC tag fileNames)", len(data), off)

	corrupt := filepath.Join(dir, "victim_v16.00000.zoekt")
	if err := os.WriteFile(corrupt, data, 0o644); err != nil {
		t.Fatal(err)
	}

	type outcome struct {
		panicked any
		stack    string
		err      error
		files    int
	}
	ch := make(chan outcome, 1)
	go func() {
		var o outcome
		defer func() {
			if r := recover(); r != nil {
				o.panicked = r
				o.stack = string(debug.Stack())
			}
			ch <- o
		}()
		// The same two steps loader.load / shardedSearcher.replace perform.
		s, err := loadShard(corrupt)
		if err != nil {
			o.err = err
			return
		}
		defer s.Close()
		rs := mkRankedShard(s)
		sr, err := searchOneShard(context.Background(), rs, &query.Substring{Pattern: "needle"}, &zoekt.SearchOptions{})
		if err == nil && sr != nil {
			o.files = len(sr.Files)
		}
	}()

	select {
	case o := <-ch:
		if o.panicked != nil {
			t.Fatalf("C11 violated: loading a shard with one flipped bit panicked (would kill the server, loader.load has no recover): %v\n%s",
				o.panicked, huntHTrim(o.stack))
		}
		t.Logf("ok: err=%v files=%d", o.err, o.files)
	case <-time.After(30 * time.Second):
		t.Fatal("C11 violated: loading the corrupt shard hangs")
	}
}

func huntHTrim(stack string) string {
	lines := bytes.Split([]byte(stack), []byte("\n"))
	var out []byte
	n := 0
	for i := 0; i+1 < len(lines) && n < 5; i++ {
		if bytes.Contains(lines[i], []byte("zoekt/index.")) || bytes.Contains(lines[i], []byte("zoekt/search.loadShard")) {
			out = append(out, fmt.Sprintf("  %s\n  %s\n", lines[i], bytes.TrimSpace(lines[i+1]))...)
			n++
		}
	}
	return string(out)
}

// TestHuntH_C11_NullRepoMetadataCrashesLoader is a second way to the same
// outcome (variant 1b, different root cause): the repository metadata JSON of
// the shard is overwritten with the JSON document "null" (padded with blanks,
// so the file length and the TOC are untouched). json.Unmarshal accepts it
// and leaves a nil *zoekt.Repository, which parseMetadata / readIndexData
// dereference.
func TestHuntH_C11_NullRepoMetadataCrashesLoader(t *testing.T) {
	data := huntHSmallShard(t, "victim", 2)

	// Locate the repoMetaData JSON object: it is the object holding the name.
	name := bytes.Index(data, []byte(`"Name":"victim"`))
	if name < 0 {
		t.Fatal("repository metadata not found")
	}
	start := bytes.LastIndex(data[:name], []byte(`{"`))
	end, depth := -1, 0
	for j := start; j < len(data) && end < 0; j++ {
		switch data[j] {
		case '{':
			depth++
		case '}':
			depth--
			if depth == 0 {
				end = j + 1
			}
		}
	}
	if start < 0 || end < 0 {
		t.Fatal("could not delimit the repository metadata")
	}
	for j := start; j < end; j++ {
		data[j] = ' '
	}
	copy(data[start:], "null")
	t.Logf("shard is %d bytes; bytes [%d,%d) (repoMetaData section) replaced by \"null\" + blanks", len(data), start, end)

	corrupt := filepath.Join(t.TempDir(), "victim_v16.00000.zoekt")
	if err := os.WriteFile(corrupt, data, 0o644); err != nil {
		t.Fatal(err)
	}

	defer func() {
		if r := recover(); r != nil {
			t.Fatalf("C11 violated: loading a shard whose repository metadata is JSON null panicked (would kill the server, loader.load has no recover): %v\n%s",
				r, huntHTrim(string(debug.Stack())))
		}
	}()
	s, err := loadShard(corrupt)
	if err == nil {
		s.Close()
	}
	t.Logf("ok: err=%v", err)
}
