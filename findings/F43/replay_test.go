package main

// Finding 4 (C35): merging the shards of a repository that spans more than one
// shard puts the repository into the compound shard twice, and 'explode' then
// writes both entries to the same simple-shard path, so the second silently
// overwrites the first. Both commands report success; most documents are gone.
//
// Place in cmd/zoekt-merge-index/ and run:
//   go test -vet=off -count=1 -run TestHuntG4 ./cmd/zoekt-merge-index/

import (
	"context"
	"fmt"
	"path/filepath"
	"strings"
	"testing"

	"github.com/sourcegraph/zoekt"
	"github.com/sourcegraph/zoekt/index"
	"github.com/sourcegraph/zoekt/query"
	"github.com/sourcegraph/zoekt/search"
)

func huntG4CountDocs(t *testing.T, dir string) int {
	t.Helper()
	ss, err := search.NewDirectorySearcher(dir)
	if err != nil {
		t.Fatal(err)
	}
	defer ss.Close()
	q, err := query.Parse("needle")
	if err != nil {
		t.Fatal(err)
	}
	res, err := ss.Search(context.Background(), q, &zoekt.SearchOptions{})
	if err != nil {
		t.Fatal(err)
	}
	return len(res.Files)
}

func TestHuntG4MergeExplodeOfMultiShardRepositoryLosesDocuments(t *testing.T) {
	dir := t.TempDir()
	opts := index.Options{
		IndexDir:              dir,
		RepositoryDescription: zoekt.Repository{Name: "big", ID: 1},
		DisableCTags:          true,
		ShardMax:              2000, // force the repository to span several shards
		Parallelism:           1,
	}
	opts.SetDefaults()
	b, err := index.NewBuilder(opts)
	if err != nil {
		t.Fatal(err)
	}
	const numDocs = 6
	for i := range numDocs {
		content := "needle " + strings.Repeat(fmt.Sprintf("w%d ", i), 200)
		if err := b.AddFile(fmt.Sprintf("f%d.txt", i), []byte(content)); err != nil {
			t.Fatal(err)
		}
	}
	if err := b.Finish(); err != nil {
		t.Fatal(err)
	}
	shards := opts.FindAllShards()
	if len(shards) < 2 {
		t.Fatalf("setup: want a repository spanning >= 2 shards, got %v", shards)
	}
	if got := huntG4CountDocs(t, dir); got != numDocs {
		t.Fatalf("setup: %d documents searchable, want %d", got, numDocs)
	}

	compound, err := merge(dir, shards)
	if err != nil {
		t.Fatalf("merge: %v", err)
	}

	// "never duplicates": the repository must be listed once.
	repos, _, err := index.ReadMetadataPathAlive(compound)
	if err != nil {
		t.Fatal(err)
	}
	if len(repos) != 1 {
		var names []string
		for _, r := range repos {
			names = append(names, fmt.Sprintf("%s(id=%d)", r.Name, r.ID))
		}
		t.Errorf("after a successful merge the compound shard lists %d repositories %v, want the single repository big once", len(repos), names)
	}

	// explode reports success ...
	if err := index.Explode(dir, compound); err != nil {
		t.Fatalf("explode: %v", err)
	}
	left, _ := filepath.Glob(filepath.Join(dir, "*.zoekt"))

	// ... so everything that went in must be back.
	if got := huntG4CountDocs(t, dir); got != numDocs {
		t.Errorf("merge and explode both reported success but only %d of %d documents of repository big survive; shards now: %v", got, numDocs, left)
	}
}
