package index

// Finding 4 (C29): BM25 scores are not reproducible. scoreFileBM25 (and
// scoreLineBM25) sum the per-term tf scores while ranging over a Go map, so the
// floating point additions happen in a random order and the same search over
// the same index returns file scores that differ in the last bits.
//
// Place in: index/   Run:
//   go test -vet=off -count=1 -run TestHuntCBM25ScoreDeterministic ./index/

import (
	"context"
	"math"
	"strings"
	"testing"

	"github.com/sourcegraph/zoekt"
	"github.com/sourcegraph/zoekt/query"
)

func TestHuntCBM25ScoreDeterministic(t *testing.T) {
	terms := []string{"alpha", "bravo", "charlie", "delta", "echoes", "foxtrot", "golfing"}
	var sb strings.Builder
	var qs []query.Q
	for i, term := range terms {
		// term i occurs 2i+1 times
		for j := 0; j <= i*2; j++ {
			sb.WriteString(term + " x\n")
		}
		qs = append(qs, &query.Substring{Pattern: term, Content: true})
	}
	b := testShardBuilder(t, nil,
		Document{Name: "f1", Content: []byte(sb.String())},
		Document{Name: "f2", Content: []byte("padding padding padding\n")})
	s := searcherForTest(t, b)
	q := query.NewOr(qs...)

	for _, chunk := range []bool{false, true} {
		seen := map[uint64]int{}
		for i := 0; i < 200; i++ {
			res, err := s.Search(context.Background(), q, &zoekt.SearchOptions{UseBM25Scoring: true, ChunkMatches: chunk})
			if err != nil {
				t.Fatal(err)
			}
			if len(res.Files) != 1 {
				t.Fatalf("got %d files, want 1", len(res.Files))
			}
			seen[math.Float64bits(res.Files[0].Score)]++
		}
		if len(seen) != 1 {
			var vals []float64
			for k := range seen {
				vals = append(vals, math.Float64frombits(k))
			}
			t.Errorf("chunk=%v: 200 identical BM25 searches of the same index returned %d distinct scores for f1: %.17g", chunk, len(seen), vals)
		}
	}
}
