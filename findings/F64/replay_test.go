// Copy to: index/   (package index)
//
// C09: "Every document added to a shard ... is read back from the written
// shard with identical name, content, branches ..." (and C10: what a search
// finds does not depend on how the index was produced).
//
// ShardBuilder.Add validates its argument only *after* it has already fed the
// document's content and name into the posting lists (unknown branch, unknown
// sub-repository path, symbol section inside a multi-byte rune, unencodable
// category are all detected late). When Add returns such an error, the
// rejected document's trigrams and rune counts stay behind in the builder while
// none of the per-document tables get an entry. Every document that is added
// *successfully* afterwards is stored at the wrong rune offsets: it is present
// in the shard (a match-all query returns it with the right content), but no
// content search finds it any more.
package index

import (
	"context"
	"testing"

	"github.com/sourcegraph/zoekt"
	"github.com/sourcegraph/zoekt/query"
)

func TestSeedL_RejectedAddCorruptsLaterDocuments(t *testing.T) {
	repo := &zoekt.Repository{
		Name:     "r",
		Branches: []zoekt.RepositoryBranch{{Name: "main", Version: "v1"}},
	}
	b, err := NewShardBuilder(repo)
	if err != nil {
		t.Fatal(err)
	}

	// Rejected: the repository has no branch "nope". Add reports the error.
	err = b.Add(Document{Name: "bad.txt", Content: []byte("this document is rejected"), Branches: []string{"nope"}})
	if err == nil {
		t.Fatal("expected Add to reject a document on an unknown branch")
	}

	// Accepted.
	good := Document{Name: "good.txt", Content: []byte("second needle\n"), Branches: []string{"main"}}
	if err := b.Add(good); err != nil {
		t.Fatalf("Add(good.txt): %v", err)
	}

	s := searcherForTest(t, b)

	// The accepted document is in the shard, with its content ...
	all, err := s.Search(context.Background(), &query.Const{Value: true}, &zoekt.SearchOptions{Whole: true})
	if err != nil {
		t.Fatal(err)
	}
	if len(all.Files) != 1 || all.Files[0].FileName != "good.txt" || string(all.Files[0].Content) != string(good.Content) {
		t.Fatalf("match-all: got %+v, want exactly good.txt", all.Files)
	}

	// ... so a search for a word of its content (or name) has to find it.
	for _, q := range []query.Q{
		&query.Substring{Pattern: "needle", Content: true},
		&query.Substring{Pattern: "second", Content: true, CaseSensitive: true},
		&query.Substring{Pattern: "good.txt", FileName: true},
	} {
		res, err := s.Search(context.Background(), q, &zoekt.SearchOptions{})
		if err != nil {
			t.Fatalf("Search(%s): %v", q, err)
		}
		if len(res.Files) != 1 || res.Files[0].FileName != "good.txt" {
			t.Errorf("Search(%s): found %d files, want the successfully added good.txt (content %q)", q, len(res.Files), good.Content)
		}
	}
}
