// Copy to: the repository root   (package zoekt)
//
// C24: "Every ... search result and repository listing survives conversion to
// the wire format and back unchanged."
//
// Result strings that are derived from repository data are arbitrary byte
// strings in Go (git paths and file contents are not necessarily UTF-8; that
// is why FileMatch.file_name is `bytes` on the wire), but they are declared as
// proto3 `string` on the wire:
//   - FileMatch.SubRepositoryPath (a git path, a prefix of FileName),
//   - Symbol.Sym (index/score.go fills it with string(content[sec.Start:sec.End])),
//   - Repository.SubRepoMap keys and Repository.FileTombstones (git paths).
// ToProto succeeds, but the protobuf encoder rejects the message ("string
// field contains invalid UTF-8"); in the real server the whole Search / List
// call then fails with codes.Internal instead of delivering the result.
package zoekt

import (
	"testing"

	"github.com/google/go-cmp/cmp"
	"github.com/google/go-cmp/cmp/cmpopts"
	"google.golang.org/protobuf/proto"

	webserverv1 "github.com/sourcegraph/zoekt/grpc/protos/zoekt/webserver/v1"
)

func TestC24Finding21_NonUTF8ResultStringsSurviveWire(t *testing.T) {
	// "caf\xe9" is "café" in Latin-1.
	t.Run("SearchResult", func(t *testing.T) {
		want := &SearchResult{
			Files: []FileMatch{{
				FileName:          "vendor/caf\xe9/main.c", // fine: bytes on the wire
				Repository:        "repo",
				SubRepositoryName: "sub",
				SubRepositoryPath: "vendor/caf\xe9",
				ChunkMatches: []ChunkMatch{{
					Content:      []byte("int caf\xe9(void);\n"),
					ContentStart: Location{ByteOffset: 0, LineNumber: 1, Column: 1},
					Ranges: []Range{{
						Start: Location{ByteOffset: 4, LineNumber: 1, Column: 5},
						End:   Location{ByteOffset: 8, LineNumber: 1, Column: 9},
					}},
					SymbolInfo: []*Symbol{{Sym: "caf\xe9", Kind: "function"}},
				}},
			}},
		}

		b, err := proto.Marshal(want.ToProto())
		if err != nil {
			t.Fatalf("search result cannot be converted to the wire format: %v", err)
		}
		var p webserverv1.SearchResponse
		if err := proto.Unmarshal(b, &p); err != nil {
			t.Fatalf("wire bytes cannot be decoded: %v", err)
		}
		got := SearchResultFromProto(&p, nil, nil)
		if d := cmp.Diff(want, got, cmpopts.EquateEmpty()); d != "" {
			t.Fatalf("search result changed on the wire (-sent +received):\n%s", d)
		}
	})

	t.Run("RepoList", func(t *testing.T) {
		want := &RepoList{
			Repos: []*RepoListEntry{{
				Repository: Repository{
					ID:             1,
					Name:           "repo",
					SubRepoMap:     map[string]*Repository{"vendor/caf\xe9": {Name: "sub"}},
					FileTombstones: map[string]struct{}{"docs/caf\xe9.txt": {}},
				},
			}},
		}

		b, err := proto.Marshal(want.ToProto())
		if err != nil {
			t.Fatalf("repository listing cannot be converted to the wire format: %v", err)
		}
		var p webserverv1.ListResponse
		if err := proto.Unmarshal(b, &p); err != nil {
			t.Fatalf("wire bytes cannot be decoded: %v", err)
		}
		got := RepoListFromProto(&p)
		if d := cmp.Diff(want, got, cmp.AllowUnexported(Repository{}), cmpopts.EquateEmpty()); d != "" {
			t.Fatalf("repository listing changed on the wire (-sent +received):\n%s", d)
		}
	})
}
