package main

// Finding 2 (C30): a repository the queue no longer tracks comes back as a
// ghost with zero IndexOptions when its in-flight indexing job reports in,
// and Bump then enqueues (and Pop yields) a repository nobody enqueued.
//
// Place in cmd/zoekt-sourcegraph-indexserver/ and run:
//   go test -vet=off -count=1 -run TestHuntG2 ./cmd/zoekt-sourcegraph-indexserver/

import (
	"testing"
	"time"

	"github.com/sourcegraph/log/logtest"
)

func TestHuntG2RemovedRepositoryReappearsAsGhost(t *testing.T) {
	queue := NewQueue(time.Millisecond, time.Millisecond, logtest.Scoped(t))

	keep := IndexOptions{RepoID: 1, Name: "keep"}
	gone := IndexOptions{RepoID: 7, Name: "gone"}

	queue.AddOrUpdate(keep)
	queue.AddOrUpdate(gone)

	// Both jobs are handed to index workers.
	for range 2 {
		if _, ok := queue.Pop(); !ok {
			t.Fatal("expected two jobs")
		}
	}

	// While "gone" is being indexed the server learns that only "keep" still
	// exists.
	removed := queue.MaybeRemoveMissing([]uint32{keep.RepoID})
	if len(removed) != 1 || removed[0] != gone.RepoID {
		t.Fatalf("MaybeRemoveMissing removed %v, want [%d]", removed, gone.RepoID)
	}

	// The in-flight jobs finish (processQueue always calls SetIndexed).
	queue.SetIndexed(keep, indexStateSuccess)
	queue.SetIndexed(gone, indexStateSuccess)

	// Property: the queue tracks exactly the repositories it was told exist.
	var tracked []IndexOptions
	queue.Iterate(func(o *IndexOptions) { tracked = append(tracked, *o) })
	if len(tracked) != 1 {
		t.Errorf("queue tracks %d repositories after MaybeRemoveMissing([1]), want exactly 1: %+v", len(tracked), tracked)
	}

	// Property: Bump reports repositories the queue does not know, and Pop
	// only yields repositories that were enqueued. Repo 7 shows up again in the
	// next listing.
	missing := queue.Bump([]uint32{keep.RepoID, gone.RepoID})
	if len(missing) != 1 || missing[0] != gone.RepoID {
		t.Errorf("Bump reported missing=%v, want [%d]: the queue has no IndexOptions for repo %d, so the server never fetches them", missing, gone.RepoID, gone.RepoID)
	}

	for {
		item, ok := queue.Pop()
		if !ok {
			break
		}
		if item.Opts.RepoID != keep.RepoID || item.Opts.Name != keep.Name {
			t.Errorf("Pop yielded a job that was never enqueued: RepoID=%d Name=%q Branches=%v", item.Opts.RepoID, item.Opts.Name, item.Opts.Branches)
		}
	}
}

// The same defect without MaybeRemoveMissing: SetIndexed for a repository the
// queue has never seen, followed by Bump.
func TestHuntG2SetIndexedOnUnknownThenBump(t *testing.T) {
	queue := NewQueue(time.Millisecond, time.Millisecond, logtest.Scoped(t))

	queue.SetIndexed(IndexOptions{RepoID: 7, Name: "unknown"}, indexStateSuccess)

	if missing := queue.Bump([]uint32{7}); len(missing) != 1 {
		t.Errorf("Bump([7]) = %v, want [7]: repo 7 was never added", missing)
	}
	if item, ok := queue.Pop(); ok {
		t.Errorf("Pop yielded a job although nothing was ever enqueued: RepoID=%d Name=%q", item.Opts.RepoID, item.Opts.Name)
	}
}
