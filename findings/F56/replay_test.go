package index

import (
	"context"
	"math"
	"testing"

	"github.com/sourcegraph/zoekt"
	"github.com/sourcegraph/zoekt/query"
)

// F56: a boost factor that is infinite (or just very large) makes file scores
// infinite - "all scores are finite" does not hold for every query a client
// can send (the wire format carries the factor as a double).
func TestVerifReplayF56(t *testing.T) {
	b := testShardBuilder(t, &zoekt.Repository{ID: 1, Name: "r"}, Document{Name: "a.txt", Content: []byte("needle here")})
	s := searcherForTest(t, b)
	for _, boost := range []float64{math.Inf(1), 1e305} {
		q := &query.Boost{Boost: boost, Child: &query.Substring{Pattern: "needle"}}
		for _, bm25 := range []bool{false, true} {
			res, err := s.Search(context.Background(), q, &zoekt.SearchOptions{UseBM25Scoring: bm25})
			if err != nil {
				t.Fatal(err)
			}
			for _, f := range res.Files {
				if math.IsInf(f.Score, 0) || math.IsNaN(f.Score) {
					t.Errorf("boost %g, bm25=%v: file score is %v", boost, bm25, f.Score)
				}
			}
		}
	}
}
