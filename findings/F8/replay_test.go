package index

import (
	"os"
	"path/filepath"
	"strings"
	"testing"

	"github.com/sourcegraph/zoekt"
)

// F8: Builder.Finish reports success although a rename of a new shard failed,
// when an old compound shard is tombstoned afterwards.
func TestVerifReplayF8(t *testing.T) {
	dir := t.TempDir()
	build := func(id uint32, name string, opts Options, docs ...string) error {
		opts.IndexDir = dir
		opts.RepositoryDescription = zoekt.Repository{ID: id, Name: name}
		opts.SetDefaults()
		b, err := NewBuilder(opts)
		if err != nil {
			t.Fatal(err)
		}
		for i, d := range docs {
			if err := b.AddFile(name+string(rune('a'+i))+".txt", []byte(d)); err != nil {
				t.Fatal(err)
			}
		}
		return b.Finish()
	}
	if err := build(7, "repoA", Options{}, "hello world one"); err != nil {
		t.Fatal(err)
	}
	if err := build(8, "repoB", Options{}, "hello world two"); err != nil {
		t.Fatal(err)
	}
	// merge the two simple shards into a compound shard
	simple, _ := filepath.Glob(filepath.Join(dir, "*.zoekt"))
	var files []IndexFile
	for _, s := range simple {
		f, err := os.Open(s)
		if err != nil {
			t.Fatal(err)
		}
		inf, err := NewIndexFile(f)
		if err != nil {
			t.Fatal(err)
		}
		defer inf.Close()
		files = append(files, inf)
	}
	tmp, dst, err := Merge(dir, files...)
	if err != nil {
		t.Fatal(err)
	}
	if err := os.Rename(tmp, dst); err != nil {
		t.Fatal(err)
	}
	for _, s := range simple {
		os.Remove(s)
	}
	// an obstacle where the SECOND shard of the new build wants to go
	o := Options{IndexDir: dir, RepositoryDescription: zoekt.Repository{ID: 7, Name: "repoA"}}
	o.SetDefaults()
	obstacle := o.shardName(1)
	if err := os.MkdirAll(filepath.Join(obstacle, "x"), 0o755); err != nil {
		t.Fatal(err)
	}
	big := strings.Repeat("some words in a file that is not tiny ", 40)
	err = build(7, "repoA", Options{ShardMerging: true, ShardMax: 1000, Parallelism: 1}, big+"1", big+"2", big+"3")
	st, statErr := os.Stat(obstacle)
	installed := statErr == nil && !st.IsDir()
	t.Logf("Finish returned %v; second shard installed as a file: %v", err, installed)
	if err == nil && !installed {
		t.Fatalf("Finish reported success although the rename of %s failed", obstacle)
	}
}
