package index

// Finding 2 (C07, and C01 through the crash): a query string with a bounded
// repetition whose bounds are 500 or more apart, e.g. `foo.{0,500}bar`, is
// accepted by query.Parse but panics when it is searched or listed.
//
// query.RegexpQuery runs syntax.Regexp.Simplify, which turns x{n,m} into
// m-n nested optional groups. newRegexpMatchTree prints that tree and hands
// the string to regexp.MustCompile / hybridre2.MustCompile; the parser rejects
// it ("expression nests too deeply", limit 1000) and MustCompile panics.
//
// Place in: index/   Run: go test -vet=off -count=1 -run TestHuntDDeepRepeat ./index/

import (
	"bytes"
	"context"
	"fmt"
	"net/http"
	"net/http/httptest"
	"strings"
	"testing"

	"github.com/sourcegraph/zoekt"
	zjson "github.com/sourcegraph/zoekt/internal/json"
	"github.com/sourcegraph/zoekt/query"
)

func TestHuntDDeepRepeat(t *testing.T) {
	b := testShardBuilder(t, &zoekt.Repository{Name: "repo"},
		Document{Name: "hit.txt", Content: []byte("foo 0123456789 bar\n")},
		Document{Name: "miss.txt", Content: []byte("foo\nbar\n")},
	)
	s := searcherForTest(t, b)

	for _, qs := range []string{`foo.{0,500}bar`, `f:a{2,502}`, `sym:a{2,502}`} {
		q, err := query.Parse(qs)
		if err != nil {
			// An error would be a legal answer; a query is what we get.
			t.Logf("Parse(%q): %v", qs, err)
			continue
		}

		// Printing and the wire format are fine.
		_ = q.String()
		_ = query.QToProto(q)

		func() {
			defer func() {
				if r := recover(); r != nil {
					t.Errorf("Search(Parse(%q)) panicked: %.160v ...", qs, r)
				}
			}()
			res, err := s.Search(context.Background(), q, &zoekt.SearchOptions{})
			if err != nil {
				t.Logf("Search(%q): error %v", qs, err)
				return
			}
			if qs == `foo.{0,500}bar` {
				if got := huntD2Names(res); fmt.Sprint(got) != "[hit.txt]" {
					t.Errorf("Search(%q) = %v, want [hit.txt]", qs, got)
				}
			}
		}()

		func() {
			defer func() {
				if r := recover(); r != nil {
					t.Errorf("List(Parse(%q)) panicked: %.160v ...", qs, r)
				}
			}()
			_, _ = s.List(context.Background(), q, nil)
		}()
	}

	// The same through the JSON API: a request body that decodes fine.
	for _, path := range []string{"/search", "/list"} {
		func() {
			defer func() {
				if r := recover(); r != nil {
					t.Errorf("JSON API %s panicked: %.160v ...", path, r)
				}
			}()
			body := `{"Q": "foo.{0,500}bar"}`
			req := httptest.NewRequest(http.MethodPost, path, bytes.NewBufferString(body))
			rec := httptest.NewRecorder()
			zjson.JSONServer(s).ServeHTTP(rec, req)
			if rec.Code != http.StatusOK && !strings.Contains(rec.Body.String(), "Error") {
				t.Errorf("JSON API %s: status %d body %q", path, rec.Code, rec.Body.String())
			}
		}()
	}
}

func huntD2Names(res *zoekt.SearchResult) []string {
	names := []string{}
	for _, f := range res.Files {
		names = append(names, f.FileName)
	}
	return names
}
