package index

// Finding 3 (crash; C03/C21 neighbourhood): when a chunk mixes candidates from
// a symbol atom with candidates from a plain content atom, scoreChunk builds a
// ChunkMatch.SymbolInfo slice that is shorter than ChunkMatch.Ranges (the API
// says it has the same length). Applying a display limit to such a chunk
// (index.SortAndTruncateFiles, which search.collectSender calls for every
// search with MaxMatchDisplayCount set) slices SymbolInfo[:limit] and panics.
//
// Place in: index/   Run:
//   go test -vet=off -count=1 -run TestHuntCSymbolInfoTruncatePanic ./index/

import (
	"context"
	"testing"

	"github.com/sourcegraph/zoekt"
	"github.com/sourcegraph/zoekt/query"
)

func TestHuntCSymbolInfoTruncatePanic(t *testing.T) {
	b := testShardBuilder(t, nil, Document{
		Name: "f1.go",
		// -------------0123456 7890123456
		Content:         []byte("bar bar\nfunc foo\n"),
		Symbols:         []DocumentSection{{Start: 13, End: 16}},
		SymbolsMetaData: []*zoekt.Symbol{{Kind: "function"}},
	})
	s := searcherForTest(t, b)

	// "sym:foo bar"
	q := query.NewAnd(
		&query.Symbol{Expr: &query.Substring{Pattern: "foo", Content: true}},
		&query.Substring{Pattern: "bar", Content: true},
	)

	for _, bm25 := range []bool{false, true} {
		opts := zoekt.SearchOptions{
			ChunkMatches:         true,
			NumContextLines:      1,
			MaxMatchDisplayCount: 2,
			UseBM25Scoring:       bm25,
		}
		res, err := s.Search(context.Background(), q, &opts)
		if err != nil {
			t.Fatal(err)
		}
		if len(res.Files) != 1 {
			t.Fatalf("got %d files, want 1", len(res.Files))
		}
		for _, cm := range res.Files[0].ChunkMatches {
			if cm.SymbolInfo != nil && len(cm.SymbolInfo) != len(cm.Ranges) {
				t.Errorf("bm25=%v: chunk has %d ranges but %d SymbolInfo entries", bm25, len(cm.Ranges), len(cm.SymbolInfo))
			}
		}

		// What search.collectSender does with every result when a display limit is set.
		func() {
			defer func() {
				if r := recover(); r != nil {
					t.Errorf("bm25=%v: SortAndTruncateFiles panicked: %v", bm25, r)
				}
			}()
			SortAndTruncateFiles(res.Files, &opts)
		}()
	}
}
