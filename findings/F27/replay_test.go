package index

import (
	"context"
	"testing"

	"github.com/sourcegraph/zoekt"
	"github.com/sourcegraph/zoekt/query"
)

// F27 candidate: a "type:filematch" (or an un-pre-evaluated "type:repo") node
// reaches newMatchTree, which only handles TypeFileName and falls through to
// log.Panicf for the other kinds.
func TestVerifReplayF27(t *testing.T) {
	b := testShardBuilder(t, &zoekt.Repository{ID: 1, Name: "r"}, Document{Name: "a.txt", Content: []byte("needle here")})
	s := searcherForTest(t, b)
	q, err := query.Parse("type:filematch needle")
	if err != nil {
		t.Fatal(err)
	}
	t.Logf("parsed: %s", q)
	defer func() {
		if r := recover(); r != nil {
			t.Fatalf("Search panicked: %v", r)
		}
	}()
	res, err := s.Search(context.Background(), q, &zoekt.SearchOptions{})
	if err != nil {
		t.Fatalf("Search error: %v", err)
	}
	t.Logf("files: %d", len(res.Files))
}
