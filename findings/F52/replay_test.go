package index

import (
	"testing"

	"github.com/sourcegraph/zoekt"
)

// Property C38: a repository may be skipped only when nothing changed; a
// metadata-only change must be reported (IndexStateMeta) so that it is applied
// without a re-index. It must never be reported as IndexStateEqual, because
// then IncrementalSkipIndexing skips the repository and the change is lost.
func huntEIndexOnce(t *testing.T, opts Options) {
	t.Helper()
	b, err := NewBuilder(opts)
	if err != nil {
		t.Fatal(err)
	}
	if err := b.AddFile("f.txt", []byte("hello world\n")); err != nil {
		t.Fatal(err)
	}
	if err := b.Finish(); err != nil {
		t.Fatal(err)
	}
	if st, _ := opts.IndexState(); st != IndexStateEqual {
		t.Fatalf("sanity: unchanged options give state %q, want %q", st, IndexStateEqual)
	}
}

func TestHuntE_MetadataChangeIsNotSkipped(t *testing.T) {
	opts := Options{
		IndexDir:     t.TempDir(),
		DisableCTags: true,
		RepositoryDescription: zoekt.Repository{
			Name:     "repo",
			Branches: []zoekt.RepositoryBranch{{Name: "main", Version: "v1"}},
			Metadata: map[string]string{"release": "stable"},
		},
	}
	opts.SetDefaults()
	huntEIndexOnce(t, opts)

	// Only the repository metadata (searchable through meta: queries) changes.
	opts.RepositoryDescription.Metadata = map[string]string{"release": "beta"}
	if st, _ := opts.IndexState(); st == IndexStateEqual {
		t.Errorf("Metadata changed from release=stable to release=beta, but IndexState is %q: the change is skipped", st)
	}
	if opts.IncrementalSkipIndexing() {
		t.Errorf("IncrementalSkipIndexing() = true although Repository.Metadata changed")
	}
}

func TestHuntE_RemovedRawConfigKeyIsNotSkipped(t *testing.T) {
	opts := Options{
		IndexDir:     t.TempDir(),
		DisableCTags: true,
		RepositoryDescription: zoekt.Repository{
			Name:      "repo",
			Branches:  []zoekt.RepositoryBranch{{Name: "main", Version: "v1"}},
			RawConfig: map[string]string{"archived": "1", "public": "1"},
		},
	}
	opts.SetDefaults()
	huntEIndexOnce(t, opts)

	// The repository is no longer archived: the key disappears from the config.
	opts.RepositoryDescription.RawConfig = map[string]string{"public": "1"}
	if st, _ := opts.IndexState(); st == IndexStateEqual {
		t.Errorf("RawConfig key \"archived\" was removed, but IndexState is %q: the change is skipped", st)
	}
}
