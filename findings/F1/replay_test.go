package index

import (
	"context"
	"os"
	"path/filepath"
	"github.com/grafana/regexp"
	"testing"

	"github.com/sourcegraph/zoekt"
	"github.com/sourcegraph/zoekt/query"
)

// F1: with the match-tree cache enabled, the cached *docMatchTree (which carries
// the evaluation cursor) is handed to every later search of the shard.
func TestVerifReplayF1(t *testing.T) {
	t.Setenv("ZOEKT_DOCMATCHTREE_CACHE", "8")
	dir := t.TempDir()
	build := func(id uint32, name string, val string, docs ...string) {
		o := Options{IndexDir: dir, RepositoryDescription: zoekt.Repository{ID: id, Name: name, Metadata: map[string]string{"k": val}}}
		o.SetDefaults()
		b, err := NewBuilder(o)
		if err != nil {
			t.Fatal(err)
		}
		for i, d := range docs {
			if err := b.AddFile(name+string(rune('a'+i))+".txt", []byte(d)); err != nil {
				t.Fatal(err)
			}
		}
		if err := b.Finish(); err != nil {
			t.Fatal(err)
		}
	}
	build(1, "repoA", "v", "alpha one", "alpha two", "alpha three")
	build(2, "repoB", "other", "beta one")
	simple, _ := filepath.Glob(filepath.Join(dir, "*.zoekt"))
	var files []IndexFile
	for _, s := range simple {
		f, err := os.Open(s)
		if err != nil {
			t.Fatal(err)
		}
		inf, err := NewIndexFile(f)
		if err != nil {
			t.Fatal(err)
		}
		files = append(files, inf)
	}
	tmp, dst, err := Merge(dir, files...)
	if err != nil {
		t.Fatal(err)
	}
	if err := os.Rename(tmp, dst); err != nil {
		t.Fatal(err)
	}
	f, err := os.Open(dst)
	if err != nil {
		t.Fatal(err)
	}
	inf, err := NewIndexFile(f)
	if err != nil {
		t.Fatal(err)
	}
	s, err := NewSearcher(inf)
	if err != nil {
		t.Fatal(err)
	}
	defer s.Close()
	q := &query.Meta{Field: "k", Value: regexp.MustCompile("^v$")}
	var counts []int
	for i := 0; i < 3; i++ {
		res, err := s.Search(context.Background(), q, &zoekt.SearchOptions{})
		if err != nil {
			t.Fatal(err)
		}
		counts = append(counts, len(res.Files))
	}
	t.Logf("files per identical search: %v", counts)
	if counts[1] != counts[0] || counts[2] != counts[0] {
		t.Fatalf("the same search on the same shard returned %v files", counts)
	}
}
