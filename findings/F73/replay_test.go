// Copy to: cmd/zoekt-sourcegraph-indexserver (package main)
//
// Property C31: "Two indexing operations for the same repository never run at
// the same time ...".
//
// Root cause: indexMutex.With is keyed by the repository *name*
// (s.muIndexDir.With(opts.Name, ...) in processQueue and forceIndex) while a
// repository is identified by its ID everywhere else (queue, Sourcegraph API,
// cleanup, and - with ID based shard names - the shard files on disk). When a
// repository is renamed on Sourcegraph, an index job that is still running
// with the old IndexOptions (old name) and a job started with freshly fetched
// IndexOptions (new name) for the very same repository ID use different keys
// and therefore run concurrently inside Server.index.
package main

import (
	"context"
	"errors"
	"strings"
	"sync"
	"testing"
	"time"

	"github.com/sourcegraph/log/logtest"

	"github.com/sourcegraph/zoekt"
)

// c31RenameSourcegraph is a fake Sourcegraph. ForceIterateIndexOptions returns
// the options for repo 1 using the name from names (one per call, last one
// repeats). UpdateIndexStatus is called by Server.index while the per
// repository lock is held; we use it to observe and hold index operations.
type c31RenameSourcegraph struct {
	mu    sync.Mutex
	names []string

	entered chan uint32   // receives the repo ID whenever an index op reports status
	release chan struct{} // closed to let index ops finish
}

func (f *c31RenameSourcegraph) List(ctx context.Context, indexed []uint32) (*SourcegraphListResult, error) {
	return nil, errors.New("not implemented")
}

func (f *c31RenameSourcegraph) ForceIterateIndexOptions(onSuccess func(IndexOptions), onError func(uint32, error), repos ...uint32) {
	for _, id := range repos {
		f.mu.Lock()
		name := f.names[0]
		if len(f.names) > 1 {
			f.names = f.names[1:]
		}
		f.mu.Unlock()
		onSuccess(IndexOptions{
			RepoID:   id,
			Name:     name,
			TenantID: 1,
			CloneURL: "/nonexistent/c31/does-not-exist.git",
			Branches: []zoekt.RepositoryBranch{{Name: "HEAD", Version: "deadbeefdeadbeefdeadbeefdeadbeefdeadbeef"}},
		})
	}
}

func (f *c31RenameSourcegraph) UpdateIndexStatus(repositories []indexStatus) error {
	for _, r := range repositories {
		f.entered <- r.RepoID
	}
	<-f.release
	return nil
}

func c31RunForceIndex(s *Server, id uint32) <-chan string {
	done := make(chan string, 1)
	go func() {
		msg, _ := s.forceIndex(context.Background(), id)
		done <- msg
	}()
	return done
}

// c31SecondOp starts a second forceIndex for repo 1 while a first one is held
// inside Server.index. It returns "concurrent" if the second operation also
// got inside Server.index, "skipped" if it was reported as already running,
// and "blocked" if it did neither within the timeout.
func c31SecondOp(t *testing.T, names []string) (outcome string, msg string) {
	t.Helper()
	t.Setenv("TMPDIR", t.TempDir())

	sg := &c31RenameSourcegraph{
		names:   names,
		entered: make(chan uint32, 4),
		release: make(chan struct{}),
	}
	s := &Server{
		logger:           logtest.Scoped(t),
		Sourcegraph:      sg,
		IndexDir:         t.TempDir(),
		CPUCount:         1,
		IndexConcurrency: 1,
		timeout:          30 * time.Second,
	}

	first := c31RunForceIndex(s, 1)
	select {
	case id := <-sg.entered:
		if id != 1 {
			t.Fatalf("unexpected repo id %d", id)
		}
	case m := <-first:
		t.Fatalf("first index operation returned without reaching the hook: %s", m)
	case <-time.After(60 * time.Second):
		t.Fatal("first index operation did not start")
	}

	// The first index operation for repository 1 is now in flight (inside
	// Server.index, holding muIndexDir.With). Start the second one.
	second := c31RunForceIndex(s, 1)
	select {
	case <-sg.entered:
		outcome = "concurrent"
	case msg = <-second:
		outcome = "returned"
		if strings.Contains(msg, "already running") {
			outcome = "skipped"
		}
	case <-time.After(5 * time.Second):
		outcome = "blocked"
	}

	close(sg.release)
	<-first
	if outcome != "skipped" && outcome != "returned" {
		<-second
	}
	return outcome, msg
}

func TestC31_RenamedRepositoryIndexedConcurrently(t *testing.T) {
	// Control: same repository, same name. The mutex works and the second
	// operation is reported as skipped.
	if outcome, msg := c31SecondOp(t, []string{"github.com/org/old"}); outcome != "skipped" {
		t.Fatalf("control: want second operation for the same repository to be skipped, got %s (%q)", outcome, msg)
	}

	// Same repository ID 1, but it was renamed between the two index
	// operations (the first still carries the old name).
	outcome, msg := c31SecondOp(t, []string{"github.com/org/old", "github.com/org/new"})
	if outcome == "concurrent" {
		t.Fatalf("C31 violated: two index operations for repository ID 1 ran at the same time " +
			"(first keyed by name github.com/org/old, second by github.com/org/new)")
	}
	t.Logf("second operation: %s %q", outcome, msg)
}
