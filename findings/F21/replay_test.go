package index

import (
	"strings"
	"testing"

	"github.com/sourcegraph/zoekt"
)

// F21: changing TrigramMax (which documents are indexed at all) does not
// change the option hash: incremental indexing skips the repository.
func TestVerifReplayF21(t *testing.T) {
	dir := t.TempDir()
	mk := func(trigramMax int) Options {
		o := Options{IndexDir: dir, TrigramMax: trigramMax, RepositoryDescription: zoekt.Repository{ID: 1, Name: "r", Branches: []zoekt.RepositoryBranch{{Name: "HEAD", Version: "v1"}}}}
		o.SetDefaults()
		return o
	}
	var sb strings.Builder
	for i := 0; i < 400; i++ {
		sb.WriteString(string(rune('a'+i%26)) + string(rune('A'+(i/26)%26)) + string(rune('0'+i%10)) + " ")
	}
	content := []byte(sb.String())
	o1 := mk(50)
	b, err := NewBuilder(o1)
	if err != nil {
		t.Fatal(err)
	}
	if err := b.Add(Document{Name: "f.txt", Content: content, Branches: []string{"HEAD"}}); err != nil {
		t.Fatal(err)
	}
	if err := b.Finish(); err != nil {
		t.Fatal(err)
	}
	if st, _ := o1.IndexState(); st != IndexStateEqual {
		t.Fatalf("same options: state %q", st)
	}
	// same repository, same branches, but now the document would be indexed
	o2 := mk(1000000)
	st, _ := o2.IndexState()
	t.Logf("hash(TrigramMax=50)=%s hash(TrigramMax=1000000)=%s state=%q skip=%v", o1.GetHash(), o2.GetHash(), st, o2.IncrementalSkipIndexing())
	if o2.IncrementalSkipIndexing() {
		t.Fatalf("TrigramMax changed from 50 to 1000000 (the document f.txt was skipped as having too many trigrams and would now be indexed) but incremental indexing skips the repository")
	}
}
