package index

// Finding 1 (C01): a case-sensitive regexp query of the shape \bLITERAL\b is
// answered by wordMatchTree even when the literal carries an inline
// case-insensitive flag, e.g. \b(?i:foo)\b (which is also what the query
// string `(?i)\bfoo\b` parses to). wordMatchTree then looks for the exact
// bytes of the literal as stored by regexp/syntax (the upper-cased "FOO") and
// misses every document the regular expression really matches.
//
// Place in: index/   Run: go test -vet=off -count=1 -run TestHuntDWordMatchFoldCase ./index/

import (
	"context"
	"regexp"
	"regexp/syntax"
	"sort"
	"testing"

	"github.com/sourcegraph/zoekt"
	"github.com/sourcegraph/zoekt/query"
)

func huntDFileNames(res *zoekt.SearchResult) []string {
	names := []string{}
	for _, f := range res.Files {
		names = append(names, f.FileName)
	}
	sort.Strings(names)
	return names
}

func TestHuntDWordMatchFoldCase(t *testing.T) {
	docs := map[string]string{
		"lower.txt": "x foo y",
		"mixed.txt": "x Foo y",
		"upper.txt": "x FOO y",
		"none.txt":  "x foobar y",
	}
	b := testShardBuilder(t, nil)
	for _, name := range []string{"lower.txt", "mixed.txt", "none.txt", "upper.txt"} {
		if err := b.Add(Document{Name: name, Content: []byte(docs[name])}); err != nil {
			t.Fatal(err)
		}
	}
	s := searcherForTest(t, b)

	const pattern = `\b(?i:foo)\b`

	// Reference: scan every document with the standard regexp engine.
	ref := regexp.MustCompile(pattern)
	want := []string{}
	for name, content := range docs {
		if ref.MatchString(content) {
			want = append(want, name)
		}
	}
	sort.Strings(want)

	// 1. The query tree built directly.
	re, err := syntax.Parse(pattern, syntax.Perl)
	if err != nil {
		t.Fatal(err)
	}
	q := &query.Regexp{Regexp: re, CaseSensitive: true, Content: true}
	res, err := s.Search(context.Background(), q, &zoekt.SearchOptions{})
	if err != nil {
		t.Fatal(err)
	}
	if got := huntDFileNames(res); !equalStringSlices(got, want) {
		t.Errorf("query %s:\n got  %v\n want %v (documents on which %s matches)", q, got, want, pattern)
	}

	// 2. The same thing typed by a user.
	for _, qs := range []string{`c:\b(?i:foo)\b`, `c:(?i)\bfoo\b`} {
		pq, err := query.Parse(qs)
		if err != nil {
			t.Fatal(err)
		}
		res, err := s.Search(context.Background(), pq, &zoekt.SearchOptions{})
		if err != nil {
			t.Fatal(err)
		}
		if got := huntDFileNames(res); !equalStringSlices(got, want) {
			t.Errorf("query string %q (parsed as %s):\n got  %v\n want %v", qs, pq, got, want)
		}
	}
}

func equalStringSlices(a, b []string) bool {
	if len(a) != len(b) {
		return false
	}
	for i := range a {
		if a[i] != b[i] {
			return false
		}
	}
	return true
}
