// Copy to: index/   (package index)
//
// C09: "Every document added to a shard - any name, any content ..., language,
// category, sub-repository and symbol ranges - is read back from the written
// shard with identical ... symbol information".
// C10: "Which documents a search finds, and the matches and branches reported
// for them, do not depend on ... the order in which documents were added".
//
// ShardBuilder.Add accepts documents that carry symbol ranges (Document.Symbols)
// without symbol metadata (Document.SymbolsMetaData == nil) as well as documents
// that carry both. The metadata table only gets entries for the latter, but the
// reader looks a section's metadata up at "number of symbol sections of all
// earlier documents + i". As soon as a document without metadata precedes a
// document with metadata in the same shard, the symbol matches of the first
// document are reported with the Kind/Parent/ParentKind of the *other*
// document's symbols, and the document that does have metadata loses it.
// With the documents added in the opposite order the result is correct, so the
// reported matches also depend on the order of addition.
//
// (Distinct from the repaired "SymbolInfo alignment with skipped documents":
// no document is skipped here.)
package index

import (
	"context"
	"fmt"
	"reflect"
	"sort"
	"testing"

	"github.com/sourcegraph/zoekt"
	"github.com/sourcegraph/zoekt/query"
)

// seedLSymbolInfo returns "file:symbol" -> description of the SymbolInfo
// reported for the symbol matches of pattern.
func seedLSymbolInfo(t *testing.T, s zoekt.Searcher, patterns ...string) map[string]string {
	t.Helper()
	out := map[string]string{}
	for _, pat := range patterns {
		res, err := s.Search(context.Background(),
			&query.Symbol{Expr: &query.Substring{Pattern: pat, CaseSensitive: true}},
			&zoekt.SearchOptions{ChunkMatches: true})
		if err != nil {
			t.Fatalf("Search(sym:%s): %v", pat, err)
		}
		for _, f := range res.Files {
			for _, cm := range f.ChunkMatches {
				for i := range cm.Ranges {
					desc := "<no symbol info>"
					if i < len(cm.SymbolInfo) && cm.SymbolInfo[i] != nil {
						si := cm.SymbolInfo[i]
						desc = fmt.Sprintf("sym=%s kind=%s parent=%s parentKind=%s", si.Sym, si.Kind, si.Parent, si.ParentKind)
					}
					out[f.FileName+":"+pat] = desc
				}
			}
		}
	}
	return out
}

func TestSeedL_SymbolMetadataMisattributed(t *testing.T) {
	repo := &zoekt.Repository{Name: "r"}

	mk := func() (plain, rich Document) {
		// Symbol ranges only (what most of zoekt's own tests add).
		plain = Document{
			Name:    "a.go",
			Content: []byte("func alpha beta"),
			Symbols: []DocumentSection{{5, 10}, {11, 15}},
		}
		// Symbol ranges with metadata (what the ctags integration adds).
		rich = Document{
			Name:    "b.go",
			Content: []byte("func gamma delta"),
			Symbols: []DocumentSection{{5, 10}, {11, 16}},
			SymbolsMetaData: []*zoekt.Symbol{
				{Sym: "gamma", Kind: "function", Parent: "P", ParentKind: "class"},
				{Sym: "delta", Kind: "variable", Parent: "Q", ParentKind: "struct"},
			},
		}
		return
	}

	want := map[string]string{
		"a.go:alpha": "<no symbol info>",
		"a.go:beta":  "<no symbol info>",
		"b.go:gamma": "sym=gamma kind=function parent=P parentKind=class",
		"b.go:delta": "sym=delta kind=variable parent=Q parentKind=struct",
	}

	results := map[string]map[string]string{}
	for _, order := range []string{"rich-first", "plain-first"} {
		plain, rich := mk()
		docs := []Document{rich, plain}
		if order == "plain-first" {
			docs = []Document{plain, rich}
		}
		b := testShardBuilder(t, repo, docs...)
		got := seedLSymbolInfo(t, searcherForTest(t, b), "alpha", "beta", "gamma", "delta")
		results[order] = got

		var keys []string
		for k := range want {
			keys = append(keys, k)
		}
		sort.Strings(keys)
		for _, k := range keys {
			if got[k] != want[k] {
				t.Errorf("C09, order %s: symbol match %s is reported with %q, the document was added with %q", order, k, got[k], want[k])
			}
		}
	}

	if !reflect.DeepEqual(results["rich-first"], results["plain-first"]) {
		t.Errorf("C10: the reported symbol matches depend on the order in which the two documents were added:\n rich-first:  %v\n plain-first: %v",
			results["rich-first"], results["plain-first"])
	}
}
