package index

import (
	"context"
	"fmt"
	"testing"

	"github.com/sourcegraph/zoekt"
	"github.com/sourcegraph/zoekt/query"
)

// C09: a document in a sub-repository, on a subset of the repository's
// branches, must be read back (name, branches, sub-repository).
//
// The shard below is accepted by NewShardBuilder/Add/Write and loads fine, but
// any search that hits the document panics: indexData.Search indexes the
// sub-repository's own Branches slice with the branch index of the *parent*
// repository (sr.Branches[idx]) without checking its length. A sub-repository
// description that carries fewer branches than its parent (here: none, exactly
// like the one in TestSubRepo) makes the shard unsearchable.
func TestHuntA_C09_SubRepoFewerBranchesThanParent(t *testing.T) {
	b := testShardBuilder(t, &zoekt.Repository{
		Name:     "root",
		Branches: []zoekt.RepositoryBranch{{Name: "main", Version: "v-main"}},
		SubRepoMap: map[string]*zoekt.Repository{
			"sub": {Name: "sub-name"},
		},
	}, Document{
		Name:              "sub/f1",
		Content:           []byte("hello world"),
		SubRepositoryPath: "sub",
		Branches:          []string{"main"},
	})
	s := searcherForTest(t, b)

	var res *zoekt.SearchResult
	err := func() (err error) {
		defer func() {
			if r := recover(); r != nil {
				err = fmt.Errorf("panic: %v", r)
			}
		}()
		res, err = s.Search(context.Background(), &query.Substring{Pattern: "hello"}, &zoekt.SearchOptions{})
		return err
	}()
	if err != nil {
		t.Fatalf("search over a document in a sub-repository failed: %v", err)
	}
	if len(res.Files) != 1 {
		t.Fatalf("got %d files, want 1", len(res.Files))
	}
	f := res.Files[0]
	if f.FileName != "sub/f1" || f.SubRepositoryPath != "sub" || f.SubRepositoryName != "sub-name" ||
		len(f.Branches) != 1 || f.Branches[0] != "main" {
		t.Errorf("read back %+v", f)
	}
}
