package zoekt

// Finding 3 (C24): ChunkMatch.SymbolInfo is documented as "If it is non-nil,
// its length will equal that of Ranges. Any of its elements may be nil", and
// the engine really produces nil slots (a chunk in which only some ranges are
// symbol matches, see index/score.go scoreChunk). ChunkMatch.ToProto copies
// the nil pointers into the repeated SymbolInfo field, but protobuf has no
// representation for a nil element of a repeated message field: on the wire
// it becomes an empty message, so the receiver gets &Symbol{} and can no
// longer tell "not a symbol match" from "a symbol".
//
// Belongs in: the repository root (package zoekt).

import (
	"testing"

	"github.com/google/go-cmp/cmp"
	"github.com/google/go-cmp/cmp/cmpopts"
	"google.golang.org/protobuf/proto"

	webserverv1 "github.com/sourcegraph/zoekt/grpc/protos/zoekt/webserver/v1"
)

func TestHuntFNilSymbolInfoLostOnTheWire(t *testing.T) {
	in := &SearchResult{
		Files: []FileMatch{{
			FileName: "main.go",
			ChunkMatches: []ChunkMatch{{
				Content:      []byte("foo := bar()\n"),
				ContentStart: Location{ByteOffset: 0, LineNumber: 1, Column: 1},
				Ranges: []Range{
					{Start: Location{ByteOffset: 0, LineNumber: 1, Column: 1}, End: Location{ByteOffset: 3, LineNumber: 1, Column: 4}},
					{Start: Location{ByteOffset: 7, LineNumber: 1, Column: 8}, End: Location{ByteOffset: 10, LineNumber: 1, Column: 11}},
				},
				// First range is a plain text match, second one is a symbol.
				SymbolInfo: []*Symbol{nil, {Sym: "bar", Kind: "function"}},
			}},
		}},
	}

	// What a gRPC client receives: the bytes of the response message.
	wire, err := proto.Marshal(in.ToProto())
	if err != nil {
		t.Fatal(err)
	}
	var p webserverv1.SearchResponse
	if err := proto.Unmarshal(wire, &p); err != nil {
		t.Fatal(err)
	}
	out := SearchResultFromProto(&p, nil, nil)

	if d := cmp.Diff(in, out, cmpopts.EquateEmpty()); d != "" {
		t.Errorf("search result changed by the wire round trip (-sent +received):\n%s", d)
	}
	if got := out.Files[0].ChunkMatches[0].SymbolInfo[0]; got != nil {
		t.Errorf("SymbolInfo[0] was nil (no symbol) when sent, received %#v", got)
	}
}
