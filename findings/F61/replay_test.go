// Copy to: index/   (package index)
//
// C17: "Setting or clearing a repository tombstone ... survives reloading the
// shard, and clearing it restores the previous results; an operation that
// reports success has taken effect."
//
// SetTombstone on a simple (format v16, one repository) shard reports success
// but writes the ".meta" sidecar as a JSON *array* of repositories, while the
// loader of a v16 shard decodes the sidecar as a single JSON *object*. After
// the "successful" call the shard can no longer be loaded at all, and
// UnsetTombstone (which has to read the metadata first) fails as well, so the
// previous results can never be restored.
package index

import (
	"context"
	"os"
	"path/filepath"
	"testing"

	"github.com/sourcegraph/zoekt"
	"github.com/sourcegraph/zoekt/query"
)

func seedLOpenShard(t *testing.T, path string) (zoekt.Searcher, error) {
	t.Helper()
	f, err := os.Open(path)
	if err != nil {
		t.Fatalf("open %s: %v", path, err)
	}
	inf, err := NewIndexFile(f)
	if err != nil {
		t.Fatalf("NewIndexFile: %v", err)
	}
	s, err := NewSearcher(inf)
	if err != nil {
		inf.Close()
		return nil, err
	}
	t.Cleanup(s.Close)
	return s, nil
}

func seedLCount(t *testing.T, s zoekt.Searcher, pat string) (files int, repos int) {
	t.Helper()
	res, err := s.Search(context.Background(), &query.Substring{Pattern: pat}, &zoekt.SearchOptions{})
	if err != nil {
		t.Fatalf("Search: %v", err)
	}
	rl, err := s.List(context.Background(), &query.Const{Value: true}, nil)
	if err != nil {
		t.Fatalf("List: %v", err)
	}
	return len(res.Files), len(rl.Repos)
}

func TestSeedL_TombstoneOnSimpleShard(t *testing.T) {
	dir := t.TempDir()
	repo := &zoekt.Repository{
		ID:       7,
		Name:     "repo7",
		Branches: []zoekt.RepositoryBranch{{Name: "main", Version: "v1"}},
	}
	b := testShardBuilder(t, repo, Document{Name: "a.txt", Content: []byte("needle one\n"), Branches: []string{"main"}})

	path := filepath.Join(dir, "repo7_v16.00000.zoekt")
	f, err := os.Create(path)
	if err != nil {
		t.Fatal(err)
	}
	if err := b.Write(f); err != nil {
		t.Fatal(err)
	}
	if err := f.Close(); err != nil {
		t.Fatal(err)
	}

	s, err := seedLOpenShard(t, path)
	if err != nil {
		t.Fatalf("fresh shard does not load: %v", err)
	}
	if files, repos := seedLCount(t, s, "needle"); files != 1 || repos != 1 {
		t.Fatalf("before tombstone: got %d files, %d repos, want 1, 1", files, repos)
	}

	if err := SetTombstone(path, 7); err != nil {
		t.Fatalf("SetTombstone: %v", err)
	}

	// The tombstone has to survive a reload: the shard loads and hides repo7.
	s, err = seedLOpenShard(t, path)
	if err != nil {
		t.Errorf("SetTombstone reported success, but the shard can no longer be loaded: %v", err)
	} else if files, repos := seedLCount(t, s, "needle"); files != 0 || repos != 0 {
		t.Errorf("after SetTombstone: got %d files, %d repos, want 0, 0", files, repos)
	}

	// Clearing restores the previous results.
	if err := UnsetTombstone(path, 7); err != nil {
		t.Fatalf("UnsetTombstone after a successful SetTombstone: %v", err)
	}
	s, err = seedLOpenShard(t, path)
	if err != nil {
		t.Fatalf("after UnsetTombstone the shard does not load: %v", err)
	}
	if files, repos := seedLCount(t, s, "needle"); files != 1 || repos != 1 {
		t.Fatalf("after UnsetTombstone: got %d files, %d repos, want 1, 1", files, repos)
	}
}
