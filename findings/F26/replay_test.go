package index

import (
	"context"
	"testing"

	"github.com/sourcegraph/zoekt"
	"github.com/sourcegraph/zoekt/query"
)

// F26: a RepoSet entry with the value false. Shard pre-selection
// (search.doSelectRepoSet) and per-shard simplification (indexData.simplify)
// read the VALUE of the entry (the repository is not in the set); the
// evaluator (newMatchTree) only tests the PRESENCE of the key (the repository
// is in the set). Whether the repository's files are returned therefore depends
// on which shard it lives in: alone in a shard the filter folds to FALSE,
// sharing a compound shard with a selected repository its files are returned.
func TestVerifReplayF26(t *testing.T) {
	repoA := &zoekt.Repository{ID: 1, Name: "repoA"}
	repoB := &zoekt.Repository{ID: 2, Name: "repoB"}
	docA := Document{Name: "a.txt", Content: []byte("needle in a")}
	docB := Document{Name: "b.txt", Content: []byte("needle in b")}
	q := query.NewAnd(&query.RepoSet{Set: map[string]bool{"repoA": true, "repoB": false}}, &query.Substring{Pattern: "needle"})

	count := func(s zoekt.Searcher) map[string]bool {
		res, err := s.Search(context.Background(), q, &zoekt.SearchOptions{})
		if err != nil {
			t.Fatal(err)
		}
		got := map[string]bool{}
		for _, f := range res.Files {
			got[f.Repository+":"+f.FileName] = true
		}
		return got
	}

	separate := map[string]bool{}
	for k := range count(searcherForTest(t, testShardBuilder(t, repoA, docA))) {
		separate[k] = true
	}
	for k := range count(searcherForTest(t, testShardBuilder(t, repoB, docB))) {
		separate[k] = true
	}
	compound := count(searcherForTest(t, testShardBuilderCompound(t, []*zoekt.Repository{repoA, repoB}, [][]Document{{docA}, {docB}})))

	if len(separate) != len(compound) {
		t.Fatalf("one shard per repository: %v; the same repositories in one compound shard: %v", separate, compound)
	}
}
