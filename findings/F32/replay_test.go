package index

import (
	"fmt"
	"testing"

	"github.com/sourcegraph/zoekt"
)

// C09 (compound shards): every document must be read back as belonging to the
// repository it was added under.
//
// ShardBuilder.Add stores the repository index of a document as a uint16. The
// guard against overflow is `repoIdx > 1<<16`, which still admits repoIdx ==
// 65536 (the 65537th repository); uint16(65536) wraps to 0, so the document is
// silently attributed to the first repository of the shard instead of being
// rejected with "too many repos in shard".
func TestHuntA_C09_CompoundRepoIndexWraps(t *testing.T) {
	b := newShardBuilder(0)
	b.indexFormatVersion = NextIndexFormatVersion

	const n = 1<<16 + 1
	var addErr error
	for i := 0; i < n; i++ {
		if err := b.setRepository(&zoekt.Repository{Name: fmt.Sprintf("r%d", i)}); err != nil {
			t.Fatal(err)
		}
		// Language and Category are preset only to keep the test fast.
		addErr = b.Add(Document{
			Name:     fmt.Sprintf("f%d", i),
			Content:  []byte("x"),
			Language: "Go",
			Category: FileCategoryDefault,
		})
		if addErr != nil {
			if i < n-1 {
				t.Fatalf("Add %d: %v", i, addErr)
			}
			// Rejecting the 65537th repository would be acceptable behaviour.
			return
		}
	}

	d := searcherForTest(t, b).(*indexData)
	last := uint32(n - 1)
	got := d.repoMetaData[d.repos[last]].Name
	if want := fmt.Sprintf("r%d", n-1); got != want {
		t.Errorf("document %q was added under repository %q but reads back under repository %q (repo index %d)",
			d.fileName(last), want, got, d.repos[last])
	}
}
