package index

// HuntB finding 3 (C12): when one of the renames that install the new shards
// fails, Builder.Finish carries on: it installs the remaining new shards and
// then goes on to remove the superseded files. The directory ends up with a
// part of the new index and nothing of the old one ("Frankenstein corpus").
// The property demands that a failed install leaves exactly the previous index
// (or exactly the new one).
//
// Place this file in index/ and run:
//   go test -vet=off -count=1 -run TestHuntBFailedRenameLeavesPartialIndex ./index/

import (
	"context"
	"fmt"
	"os"
	"path/filepath"
	"reflect"
	"sort"
	"strings"
	"testing"

	"github.com/sourcegraph/zoekt"
	"github.com/sourcegraph/zoekt/query"
)

// huntB3Visible loads every regular *.zoekt file of dir the way a searcher does
// and returns the sorted "name=generation" of all documents it can see.
func huntB3Visible(t *testing.T, dir string) []string {
	t.Helper()
	fs, _ := filepath.Glob(filepath.Join(dir, "*.zoekt"))
	var out []string
	for _, fn := range fs {
		if fi, err := os.Stat(fn); err != nil || fi.IsDir() {
			continue
		}
		f, err := os.Open(fn)
		if err != nil {
			t.Fatal(err)
		}
		inf, err := NewIndexFile(f)
		if err != nil {
			t.Fatal(err)
		}
		s, err := NewSearcher(inf)
		if err != nil {
			inf.Close()
			out = append(out, "UNLOADABLE:"+filepath.Base(fn))
			continue
		}
		res, err := s.Search(context.Background(), &query.Const{Value: true}, &zoekt.SearchOptions{Whole: true})
		if err != nil {
			t.Fatal(err)
		}
		for _, fm := range res.Files {
			out = append(out, fm.FileName+"="+strings.SplitN(string(fm.Content), " ", 2)[0])
		}
		s.Close()
	}
	sort.Strings(out)
	return out
}

func huntB3Options(dir string) Options {
	opts := Options{
		IndexDir:              dir,
		RepositoryDescription: zoekt.Repository{Name: "repo", ID: 7},
		ShardMax:              75, // every ~100 byte document gets a shard of its own
		Parallelism:           1,
		DisableCTags:          true,
	}
	opts.SetDefaults()
	return opts
}

// huntB3Build indexes nfiles documents f0..f<n-1> whose content starts with gen.
func huntB3Build(t *testing.T, dir, gen string, nfiles int) error {
	t.Helper()
	b, err := NewBuilder(huntB3Options(dir))
	if err != nil {
		t.Fatal(err)
	}
	for i := 0; i < nfiles; i++ {
		doc := Document{Name: fmt.Sprintf("f%d", i), Content: []byte(gen + " " + strings.Repeat("A", 100))}
		if err := b.Add(doc); err != nil {
			t.Fatal(err)
		}
	}
	return b.Finish()
}

func TestHuntBFailedRenameLeavesPartialIndex(t *testing.T) {
	dir := t.TempDir()

	// Previous index: one shard.
	if err := huntB3Build(t, dir, "old", 1); err != nil {
		t.Fatal(err)
	}
	oldView := huntB3Visible(t, dir)
	newView := []string{"f0=new", "f1=new"}

	// The rename that installs the second shard of the new index will fail: a
	// (non-empty) directory sits at its destination.
	opts := huntB3Options(dir)
	if err := os.MkdirAll(filepath.Join(opts.shardName(1), "x"), 0o755); err != nil {
		t.Fatal(err)
	}

	// New index: two shards.
	err := huntB3Build(t, dir, "new", 2)
	if err == nil {
		t.Fatal("setup: expected Finish to report the failed rename")
	}
	t.Logf("Finish reported: %v", err)

	got := huntB3Visible(t, dir)
	if !reflect.DeepEqual(got, oldView) && !reflect.DeepEqual(got, newView) {
		t.Errorf("after a failed install the searcher sees neither the previous nor the new index:\n got: %q\n old: %q\n new: %q", got, oldView, newView)
	}
}
