package index

import (
	"fmt"
	"testing"

	"github.com/sourcegraph/zoekt"
	"github.com/sourcegraph/zoekt/query"
)

// C16: merging simple shards must preserve every live repository, including
// its symbols.
//
// A document may carry symbol ranges (Document.Symbols) without ctags metadata
// (Document.SymbolsMetaData == nil); ShardBuilder.Add accepts that, the shard
// is written, read and symbol-searched fine. Merging such a shard crashes:
// addDocument fills SymbolsMetaData with the nil pointers that
// symbolData.data() returns for absent metadata, and ShardBuilder.addSymbols
// dereferences them.
func TestHuntA_C16_MergeSymbolsWithoutMetadata(t *testing.T) {
	b := testShardBuilder(t, &zoekt.Repository{Name: "repo"}, Document{
		Name:    "f.go",
		Content: []byte("func needle() {}\n"),
		Symbols: []DocumentSection{{Start: 5, End: 11}},
	})

	// The input shard is healthy: a symbol search finds the symbol.
	symQ := &query.Symbol{Expr: &query.Substring{Pattern: "needle"}}
	if res := searchForTest(t, b, symQ); len(res.Files) != 1 {
		t.Fatalf("input shard: sym:needle found %d files, want 1", len(res.Files))
	}

	d := searcherForTest(t, b).(*indexData)

	var merged *ShardBuilder
	err := func() (err error) {
		defer func() {
			if r := recover(); r != nil {
				err = fmt.Errorf("panic: %v", r)
			}
		}()
		merged, err = merge(d)
		return err
	}()
	if err != nil {
		t.Fatalf("merge of a shard whose document has Symbols but no SymbolsMetaData failed: %v", err)
	}

	if res := searchForTest(t, merged, symQ); len(res.Files) != 1 {
		t.Fatalf("merged shard: sym:needle found %d files, want 1", len(res.Files))
	}
}

// Related crash with the same root cause family (symbol metadata is optional
// for the writer but assumed to be parallel to Symbols elsewhere):
// ShardBuilder.Add sorts doc.Symbols itself, so unsorted ranges are accepted
// input, but symbolSlice.Swap also swaps SymbolsMetaData[i], which panics when
// no metadata was supplied.
func TestHuntA_C09_UnsortedSymbolsWithoutMetadata(t *testing.T) {
	b, err := NewShardBuilder(nil)
	if err != nil {
		t.Fatal(err)
	}
	err = func() (err error) {
		defer func() {
			if r := recover(); r != nil {
				err = fmt.Errorf("panic: %v", r)
			}
		}()
		return b.Add(Document{
			Name:    "f",
			Content: []byte("abc def ghi"),
			Symbols: []DocumentSection{{Start: 4, End: 7}, {Start: 0, End: 3}},
		})
	}()
	if err != nil {
		t.Fatalf("Add of a document with two non-overlapping symbol ranges given in reverse order: %v", err)
	}
	d := searcherForTest(t, b).(*indexData)
	secs, _, err := d.readDocSections(0, nil)
	if err != nil {
		t.Fatal(err)
	}
	want := []DocumentSection{{Start: 0, End: 3}, {Start: 4, End: 7}}
	if len(secs) != 2 || secs[0] != want[0] || secs[1] != want[1] {
		t.Errorf("sections read back as %v, want %v", secs, want)
	}
}
