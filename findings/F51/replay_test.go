package gitindex

import (
	"context"
	"os/exec"
	"path/filepath"
	"reflect"
	"sort"
	"testing"

	"github.com/sourcegraph/zoekt"
	"github.com/sourcegraph/zoekt/index"
	"github.com/sourcegraph/zoekt/query"
	"github.com/sourcegraph/zoekt/search"
)

// Property C14: the branch list of a document is exactly the set of indexed
// branches that contain that path with that content.
//
// The super project adir has two branches (master and dev) that point at the
// same commit, so every file - including the files of the submodule "bname",
// which is pinned to the same commit on both branches - is on both branches.
func TestHuntE_SubmoduleFilesKeepAllBranches(t *testing.T) {
	dir := t.TempDir()
	if err := createSubmoduleRepo(dir); err != nil {
		t.Fatalf("createSubmoduleRepo: %v", err)
	}
	repoDir := filepath.Join(dir, "gerrit.googlesource.com", "adir.git")
	cmd := exec.Command("git", "branch", "dev", "master")
	cmd.Dir = repoDir
	cmd.Env = gitTestEnv()
	if out, err := cmd.CombinedOutput(); err != nil {
		t.Fatalf("git branch: %v\n%s", err, out)
	}

	indexDir := t.TempDir()
	opts := Options{
		RepoDir:      repoDir,
		BuildOptions: index.Options{IndexDir: indexDir, DisableCTags: true},
		BranchPrefix: "refs/heads/",
		Branches:     []string{"master", "dev"},
		Submodules:   true,
		RepoCacheDir: dir,
	}
	if _, err := IndexGitRepo(opts); err != nil {
		t.Fatalf("IndexGitRepo: %v", err)
	}

	searcher, err := search.NewDirectorySearcher(indexDir)
	if err != nil {
		t.Fatal(err)
	}
	defer searcher.Close()

	res, err := searcher.Search(context.Background(), &query.Const{Value: true}, &zoekt.SearchOptions{})
	if err != nil {
		t.Fatal(err)
	}
	want := []string{"master", "dev"}
	var names []string
	for _, f := range res.Files {
		names = append(names, f.FileName)
		if !reflect.DeepEqual(f.Branches, want) {
			t.Errorf("%s: document is on branches %v, want %v", f.FileName, f.Branches, want)
		}
	}
	sort.Strings(names)
	if wantNames := []string{".gitmodules", "afile", "bname/bfile", "bname/bsymlink", "subdir/sub-file"}; !reflect.DeepEqual(names, wantNames) {
		t.Errorf("documents %v, want %v", names, wantNames)
	}

	// The user-visible consequence: a search restricted to the first branch
	// does not find the submodule's file although master contains it.
	res, err = searcher.Search(context.Background(),
		query.NewAnd(&query.Substring{Pattern: "bcont", Content: true}, &query.Branch{Pattern: "master", Exact: true}),
		&zoekt.SearchOptions{})
	if err != nil {
		t.Fatal(err)
	}
	if len(res.Files) != 1 {
		t.Errorf("search for 'bcont' on branch master found %d files, want 1 (bname/bfile)", len(res.Files))
	}
}
