package server

// Finding 1 (C24): a well-formed gRPC request carrying a crafted roaring
// bitmap (RepoIds.repos or BranchRepos.repos) is accepted by QFromProto and
// then panics the handler as soon as the query is printed, which the
// production searcher stack does for every request
// (cmd/zoekt-webserver/main.go loggedSearcher.log -> q.String()).
//
// Belongs in: cmd/zoekt-webserver/grpc/server/

import (
	"context"
	"testing"

	"google.golang.org/grpc"
	"google.golang.org/protobuf/proto"

	"github.com/sourcegraph/zoekt"
	webserverv1 "github.com/sourcegraph/zoekt/grpc/protos/zoekt/webserver/v1"
	"github.com/sourcegraph/zoekt/internal/mockSearcher"
	"github.com/sourcegraph/zoekt/query"
)

// huntFBitmap is a syntactically valid roaring serialization: cookie 0x303b
// ("has run containers"), one container, run-flag bitmap 0x01, key 0 /
// cardinality-1 0, and a run container that declares zero runs.
// roaring.UnmarshalBinary accepts it; iterating it indexes into an empty slice.
var huntFBitmap = []byte{0x3b, 0x30, 0x00, 0x00, 0x01, 0x00, 0x00, 0x00, 0x00, 0x00, 0x00}

type huntFNullStream struct {
	grpc.ServerStream
}

func (huntFNullStream) Context() context.Context                       { return context.Background() }
func (huntFNullStream) Send(*webserverv1.StreamSearchResponse) error { return nil }

// overTheWire marshals and unmarshals m, so the handler sees exactly what a
// remote client can make it see.
func huntFOverTheWire[M proto.Message](t *testing.T, m M, into M) M {
	t.Helper()
	b, err := proto.Marshal(m)
	if err != nil {
		t.Fatal(err)
	}
	if err := proto.Unmarshal(b, into); err != nil {
		t.Fatal(err)
	}
	return into
}

func TestHuntFMalformedBitmapCrashesHandlers(t *testing.T) {
	queries := map[string]*webserverv1.Q{
		"repo_ids": {Query: &webserverv1.Q_RepoIds{RepoIds: &webserverv1.RepoIds{Repos: huntFBitmap}}},
		"branches_repos": {Query: &webserverv1.Q_BranchesRepos{BranchesRepos: &webserverv1.BranchesRepos{
			List: []*webserverv1.BranchRepos{{Branch: "HEAD", Repos: huntFBitmap}},
		}}},
	}

	// The repository's own mock searcher prints the query it receives, like the
	// loggedSearcher that wraps every production searcher.
	mock := &mockSearcher.MockSearcher{
		WantSearch:   &query.Const{Value: true},
		SearchResult: &zoekt.SearchResult{},
		WantList:     &query.Const{Value: true},
		RepoList:     &zoekt.RepoList{},
	}
	srv := NewServer(adapter{mock})

	// answered runs a handler and reports a panic as a test failure; the
	// property only asks for "a response or an error status".
	answered := func(name string, f func() error) {
		t.Helper()
		defer func() {
			if r := recover(); r != nil {
				t.Errorf("%s: handler panicked (a gRPC server has no recover, the process dies): %v", name, r)
			}
		}()
		err := f()
		t.Logf("%s: answered with err=%v", name, err)
	}

	for name, q := range queries {
		answered("Search/"+name, func() error {
			req := huntFOverTheWire(t, &webserverv1.SearchRequest{Query: q}, &webserverv1.SearchRequest{})
			_, err := srv.Search(context.Background(), req)
			return err
		})
		answered("StreamSearch/"+name, func() error {
			req := huntFOverTheWire(t, &webserverv1.StreamSearchRequest{Request: &webserverv1.SearchRequest{Query: q}}, &webserverv1.StreamSearchRequest{})
			return srv.StreamSearch(req, huntFNullStream{})
		})
		answered("List/"+name, func() error {
			req := huntFOverTheWire(t, &webserverv1.ListRequest{Query: q}, &webserverv1.ListRequest{})
			_, err := srv.List(context.Background(), req)
			return err
		})
	}

	// The same thing one layer down: QFromProto hands out a query that can not
	// even be printed.
	for name, q := range queries {
		func() {
			defer func() {
				if r := recover(); r != nil {
					t.Errorf("QFromProto(%s) returned a query whose String() panics: %v", name, r)
				}
			}()
			parsed, err := query.QFromProto(q)
			if err != nil {
				return // rejecting the bitmap is fine
			}
			// Called directly, as loggedSearcher.log does (fmt would swallow
			// the panic of a Stringer).
			_ = parsed.String()
		}()
	}
}
