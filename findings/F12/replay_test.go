package search

import (
	"context"
	"testing"

	"github.com/sourcegraph/zoekt"
	"github.com/sourcegraph/zoekt/index"
	"github.com/sourcegraph/zoekt/query"
)

// F12: a branches-repos filter for the branch named "HEAD" selects, inside a
// shard, the documents of the branch that is literally named "HEAD" (none when
// the repository's branches are called something else). The sharded searcher
// rewrites a one-entry filter to Branch{Pattern: "HEAD", Exact: true}, for
// which newMatchTree has a special case: the first branch of every repository,
// whatever its name. The sharded search then returns files where the per-shard
// search with the original query returns none.
func TestVerifReplayF12(t *testing.T) {
	repo := &zoekt.Repository{ID: 7, Name: "repo", Branches: []zoekt.RepositoryBranch{{Name: "main", Version: "v"}}}
	b := testShardBuilder(t, repo,
		index.Document{Name: "a.txt", Content: []byte("needle one"), Branches: []string{"main"}},
		index.Document{Name: "b.txt", Content: []byte("needle two"), Branches: []string{"main"}})
	q := query.NewAnd(query.NewSingleBranchesRepos("HEAD", 7), &query.Substring{Pattern: "needle"})

	direct, err := searcherForTest(t, b).Search(context.Background(), q, &zoekt.SearchOptions{})
	if err != nil {
		t.Fatal(err)
	}
	ss := newShardedSearcher(1)
	ss.replace(map[string]zoekt.Searcher{"r1": searcherForTest(t, b)})
	sharded, err := ss.Search(context.Background(), q, &zoekt.SearchOptions{})
	if err != nil {
		t.Fatal(err)
	}
	if len(direct.Files) != len(sharded.Files) {
		t.Fatalf("per-shard search with the original query: %d files; sharded search: %d files", len(direct.Files), len(sharded.Files))
	}
}
