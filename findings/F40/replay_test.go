package main

// Finding 1 (C33): the sync preview is not faithful when a repository moved
// between roots (same name, same commit, different source directory).
//
// Place in cmd/zoekt-local-sync/ and run:
//   go test -vet=off -count=1 -run TestHuntG1 ./cmd/zoekt-local-sync/

import (
	"bytes"
	"os"
	"path/filepath"
	"strings"
	"testing"
)

func TestHuntG1PreviewOfMovedRepositoryIsNotFaithful(t *testing.T) {
	base, err := filepath.EvalSymlinks(t.TempDir())
	if err != nil {
		t.Fatal(err)
	}
	rootA := filepath.Join(base, "rootA")
	rootB := filepath.Join(base, "rootB")
	for _, d := range []string{rootA, rootB} {
		if err := os.MkdirAll(d, 0o755); err != nil {
			t.Fatal(err)
		}
	}
	indexDir := t.TempDir()
	createGitRepository(t, filepath.Join(rootA, "proj"))

	sync := func(force bool) string {
		t.Helper()
		args := []string{"-index", indexDir, "-disable_ctags", "-submodules=false"}
		if force {
			args = append(args, "-f")
		}
		args = append(args, rootA, rootB)
		var out bytes.Buffer
		if err := execute(args, &out, &bytes.Buffer{}); err != nil {
			t.Fatalf("sync force=%v: %v\n%s", force, err, out.String())
		}
		return out.String()
	}

	// Index the repository where it is: <rootA>/proj, named "proj".
	sync(true)

	// The repository is moved to the other root. Its name stays "proj" and its
	// HEAD commit is unchanged; only its source directory differs.
	if err := os.Rename(filepath.Join(rootA, "proj"), filepath.Join(rootB, "proj")); err != nil {
		t.Fatal(err)
	}

	preview := sync(false)
	applied := sync(true)

	previewRemoves := strings.Contains(preview, "Would remove ")
	appliedRemoves := strings.Contains(applied, "Removing ")
	previewIndexes := strings.Contains(preview, `Would index "proj"`)
	appliedIndexes := strings.Contains(applied, `Indexed "proj"`)

	if previewRemoves != appliedRemoves {
		t.Errorf("preview announces removal=%v, -f removes=%v", previewRemoves, appliedRemoves)
	}
	if previewIndexes != appliedIndexes {
		t.Errorf("preview is not faithful: preview announces (re)indexing of \"proj\"=%v but the same command with -f indexed it=%v\n--- preview ---\n%s--- with -f ---\n%s",
			previewIndexes, appliedIndexes, preview, applied)
	}
}
