package index

// Finding 3 (C04): with the match-tree cache enabled, two DIFFERENT meta
// queries share one cache entry, so the answer to the second depends on
// whether the first ran before it.
//
// Belongs in: index/   (package index)

import (
	"bytes"
	"context"
	"sort"
	"strings"
	"testing"

	"github.com/grafana/regexp"

	"github.com/sourcegraph/zoekt"
	"github.com/sourcegraph/zoekt/query"
)

func huntHMetaSearcher(t *testing.T) zoekt.Searcher {
	t.Helper()

	b := newShardBuilder(0)
	b.indexFormatVersion = NextIndexFormatVersion
	for _, r := range []*zoekt.Repository{
		// A metadata key may be any string. The key of the first repository
		// ends with the separator the cache key uses.
		{ID: 1, Name: "repo1", Metadata: map[string]string{"team:": "core"}},
		{ID: 2, Name: "repo2", Metadata: map[string]string{"team": ":core"}},
	} {
		if err := b.setRepository(r); err != nil {
			t.Fatal(err)
		}
		if err := b.Add(Document{Name: r.Name + ".txt", Content: []byte("needle in " + r.Name)}); err != nil {
			t.Fatal(err)
		}
	}

	var buf bytes.Buffer
	if err := b.Write(&buf); err != nil {
		t.Fatal(err)
	}
	s, err := NewSearcher(&memSeeker{buf.Bytes()})
	if err != nil {
		t.Fatal(err)
	}
	return s
}

func huntHFileNames(t *testing.T, s zoekt.Searcher, q query.Q) string {
	t.Helper()
	sr, err := s.Search(context.Background(), q, &zoekt.SearchOptions{})
	if err != nil {
		t.Fatal(err)
	}
	var names []string
	for _, f := range sr.Files {
		names = append(names, f.Repository+"/"+f.FileName)
	}
	sort.Strings(names)
	return strings.Join(names, ",")
}

func TestHuntH_C04_MetaCacheKeyCollision(t *testing.T) {
	// The cache size is read when a shard is loaded.
	t.Setenv("ZOEKT_DOCMATCHTREE_CACHE", "16")

	// Two different queries: meta field "team:" matching /core/, and meta
	// field "team" matching /:core/. Each selects exactly one repository.
	q1 := &query.Meta{Field: "team:", Value: regexp.MustCompile("core")}
	q2 := &query.Meta{Field: "team", Value: regexp.MustCompile(":core")}

	// q2 alone on a freshly loaded index.
	fresh := huntHMetaSearcher(t)
	defer fresh.Close()
	want := huntHFileNames(t, fresh, q2)
	if want != "repo2/repo2.txt" {
		t.Fatalf("unexpected baseline for q2 alone: %q", want)
	}

	// q1, then q2, on another freshly loaded index.
	s := huntHMetaSearcher(t)
	defer s.Close()
	if got := huntHFileNames(t, s, q1); got != "repo1/repo1.txt" {
		t.Fatalf("unexpected result for q1: %q", got)
	}
	got := huntHFileNames(t, s, q2)
	if got != want {
		t.Fatalf("C04 violated: meta{Field:%q Value:/%s/} returns %q after meta{Field:%q Value:/%s/} ran on the same searcher, but %q when run alone on a freshly loaded index",
			q2.Field, q2.Value, got, q1.Field, q1.Value, want)
	}
}
