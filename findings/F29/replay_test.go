package index

// Finding 2 (C02): a case-sensitive regexp of the shape \bLITERAL\b is
// evaluated by wordMatchTree instead of the regexp engine, but wordMatchTree
// (a) assumes both ends of LITERAL are word characters, so for a literal that
// starts/ends with a non-word character it reports ranges the regexp does not
// match and misses the ones it does match, and (b) skips len(word) bytes after
// a rejected occurrence, losing a valid overlapping occurrence.
//
// Place in: index/   Run:
//   go test -vet=off -count=1 -run TestHuntCWordBoundaryRegexp ./index/

import (
	"fmt"
	"regexp"
	"regexp/syntax"
	"testing"

	"github.com/sourcegraph/zoekt"
	"github.com/sourcegraph/zoekt/query"
)

func TestHuntCWordBoundaryRegexp(t *testing.T) {
	cases := []struct{ re, content string }{
		{`\b\.foo\b`, "x.foo y\n"},  // engine: [1,5)   zoekt: nothing
		{`\b\.foo\b`, "x .foo y\n"}, // engine: nothing zoekt: [2,6)
		{`\bfoo\(\b`, "foo(x)\n"},   // engine: [0,4)   zoekt: nothing
		{`\bfoo\(\b`, "foo( x)\n"},  // engine: nothing zoekt: [0,4)
		{`\ba-a\b`, "xa-a-a\n"},     // engine: [3,6)   zoekt: nothing (skips past it)
	}
	for _, tc := range cases {
		for _, chunk := range []bool{false, true} {
			b := testShardBuilder(t, nil, Document{Name: "f1", Content: []byte(tc.content)})
			re, err := syntax.Parse(tc.re, syntax.Perl)
			if err != nil {
				t.Fatal(err)
			}
			q := &query.Regexp{Regexp: re, CaseSensitive: true, Content: true}
			res := searchForTest(t, b, q, zoekt.SearchOptions{ChunkMatches: chunk})

			want := fmt.Sprint(regexp.MustCompile(tc.re).FindAllStringIndex(tc.content, -1))
			var got [][]int
			for _, f := range res.Files {
				for _, lm := range f.LineMatches {
					for _, fr := range lm.LineFragments {
						got = append(got, []int{int(fr.Offset), int(fr.Offset) + fr.MatchLength})
					}
				}
				for _, cm := range f.ChunkMatches {
					for _, r := range cm.Ranges {
						got = append(got, []int{int(r.Start.ByteOffset), int(r.End.ByteOffset)})
					}
				}
			}
			if fmt.Sprint(got) != want {
				t.Errorf("regexp %s on %q (chunk=%v): zoekt reports ranges %v, the regexp engine matches %v",
					tc.re, tc.content, chunk, got, want)
			}
		}
	}
}
