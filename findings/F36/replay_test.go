package gitindex

// HuntB finding 2 (C13): prepareDeltaBuild selects files differently from the
// full build (RepoWalker.handleEntry), so full+delta does not give the per-branch
// view of a fresh full build of the same commits.
//
//  (a) it never consults .sourcegraph/ignore: changed/added files under an
//      ignored path get indexed by a delta build;
//  (b) it relies on object.Change.Files(), which returns (nil, nil) when either
//      side of a change is a gitlink (submodule entry): a file replaced by a
//      gitlink keeps its stale document, and a gitlink replaced by a regular file
//      gets no document at all.
//
// Place this file in gitindex/ and run:
//   go test -vet=off -count=1 -run 'TestHuntBDelta' ./gitindex/

import (
	"context"
	"os/exec"
	"path/filepath"
	"reflect"
	"sort"
	"strings"
	"testing"

	"github.com/sourcegraph/zoekt"
	"github.com/sourcegraph/zoekt/index"
	"github.com/sourcegraph/zoekt/query"
	"github.com/sourcegraph/zoekt/search"
)

func huntB2Sh(t *testing.T, dir, script string) {
	t.Helper()
	cmd := exec.Command("/bin/sh", "-euc", script)
	cmd.Dir = dir
	cmd.Env = gitTestEnv()
	if out, err := cmd.CombinedOutput(); err != nil {
		t.Fatalf("script failed: %v\n%s\n%s", err, script, out)
	}
}

func huntB2Index(t *testing.T, repoDir, indexDir string, delta bool) {
	t.Helper()
	bo := index.Options{
		IndexDir:              indexDir,
		RepositoryDescription: zoekt.Repository{Name: "repository"},
		IsDelta:               delta,
		DisableCTags:          true,
	}
	bo.SetDefaults()
	if _, err := IndexGitRepo(Options{
		RepoDir:      filepath.Join(repoDir, ".git"),
		BuildOptions: bo,
		Branches:     []string{"main"},
	}); err != nil {
		t.Fatalf("IndexGitRepo(delta=%v): %v", delta, err)
	}
}

// huntB2BranchView lists "path=content" for every document visible on branch main.
func huntB2BranchView(t *testing.T, indexDir string) []string {
	t.Helper()
	ss, err := search.NewDirectorySearcher(indexDir)
	if err != nil {
		t.Fatal(err)
	}
	defer ss.Close()
	q := query.NewAnd(&query.Branch{Pattern: "main", Exact: true}, &query.Const{Value: true})
	res, err := ss.Search(context.Background(), q, &zoekt.SearchOptions{Whole: true})
	if err != nil {
		t.Fatal(err)
	}
	var view []string
	for _, f := range res.Files {
		view = append(view, f.FileName+"="+strings.TrimSpace(string(f.Content)))
	}
	sort.Strings(view)
	return view
}

func huntB2ShardCount(indexDir string) int {
	fs, _ := filepath.Glob(filepath.Join(indexDir, "*.zoekt"))
	return len(fs)
}

// (a) the ignore file is untouched by the second commit; only ignored files change.
func TestHuntBDeltaIgnoresSourcegraphIgnore(t *testing.T) {
	repoDir := t.TempDir()
	deltaIndex := t.TempDir()
	fullIndex := t.TempDir()

	huntB2Sh(t, repoDir, `
git init -q -b main .
mkdir .sourcegraph secret
echo 'secret/' > .sourcegraph/ignore
echo 'public v1' > public.txt
echo 'hunter2 v1' > secret/password.txt
git add -A
git commit -q -m one
`)
	huntB2Index(t, repoDir, deltaIndex, false) // full build of commit 1
	for _, e := range huntB2BranchView(t, deltaIndex) {
		if strings.HasPrefix(e, "secret/") {
			t.Fatalf("setup: the full build indexed an ignored file: %q", e)
		}
	}

	huntB2Sh(t, repoDir, `
echo 'hunter2 v2' > secret/password.txt
echo 'token' > secret/token.txt
echo 'public v2' > public.txt
git add -A
git commit -q -m two
`)
	huntB2Index(t, repoDir, deltaIndex, true) // delta build on top of commit 1
	huntB2Index(t, repoDir, fullIndex, false) // fresh full build of commit 2
	// (on the pinned tree this second run is a real delta build with 2 shards; after the repair it falls back to a normal build)

	got := huntB2BranchView(t, deltaIndex)
	want := huntB2BranchView(t, fullIndex)
	if !reflect.DeepEqual(got, want) {
		t.Errorf("branch main after full+delta differs from a fresh full build of the same commit\n delta view: %q\n  full view: %q", got, want)
	}
}

// (b) a regular file becomes a gitlink and a gitlink becomes a regular file.
func TestHuntBDeltaGitlinkTransitions(t *testing.T) {
	repoDir := t.TempDir()
	deltaIndex := t.TempDir()
	fullIndex := t.TempDir()

	huntB2Sh(t, repoDir, `
git init -q -b main .
echo 'public v1' > public.txt
echo 'i am a file' > sub
git add -A
git commit -q -m one
git update-index --add --cacheinfo 160000,$(git rev-parse HEAD),vendor
git commit -q -m 'add gitlink vendor'
`)
	huntB2Index(t, repoDir, deltaIndex, false)

	huntB2Sh(t, repoDir, `
git rm -q --cached sub
git update-index --add --cacheinfo 160000,$(git rev-parse HEAD),sub
git rm -q --cached vendor
echo 'now a file' > vendor
git add vendor
git commit -q -m 'sub: file->gitlink, vendor: gitlink->file'
`)
	huntB2Index(t, repoDir, deltaIndex, true)
	huntB2Index(t, repoDir, fullIndex, false)
	if n := huntB2ShardCount(deltaIndex); n < 1 {
		t.Fatalf("no shards")
	}

	// Head of main now has the regular files public.txt and vendor (sub is a gitlink).
	want := []string{"public.txt=public v1", "vendor=now a file"}
	if full := huntB2BranchView(t, fullIndex); !reflect.DeepEqual(full, want) {
		t.Fatalf("setup: fresh full build gives %q, want %q", full, want)
	}
	got := huntB2BranchView(t, deltaIndex)
	if !reflect.DeepEqual(got, want) {
		t.Errorf("branch main after full+delta: got %q, want %q (stale document for 'sub', no document for head file 'vendor')", got, want)
	}
}
