package server

// Finding 4 (C25): the chunker budgets a message by summing proto.Size of the
// individual FileMatch items (grpc/chunk/chunker.go sendOne), but every item
// of a repeated message field costs an additional tag byte plus a length
// varint on the wire, and the first chunk also carries Stats and Progress.
// None of that is counted, so a chunk made of many small files is larger than
// chunk.maxMessageSize (1 MiB) although no single file is anywhere near the
// limit. With ~75 byte files the message is ~3% over, with minimal files
// ~67% over; a FileMatch of proto.Size 0 is never counted at all.
//
// Belongs in: cmd/zoekt-webserver/grpc/server/

import (
	"fmt"
	"testing"

	"google.golang.org/grpc"
	"google.golang.org/protobuf/proto"

	"github.com/sourcegraph/zoekt"
	webserverv1 "github.com/sourcegraph/zoekt/grpc/protos/zoekt/webserver/v1"
)

// huntFSizeStream records the wire size of every message sent on the stream.
type huntFSizeStream struct {
	grpc.ServerStream
	sizes    []int
	files    []int
	maxFile  []int
	allFiles []string
}

func (s *huntFSizeStream) Send(r *webserverv1.StreamSearchResponse) error {
	s.sizes = append(s.sizes, proto.Size(r))
	s.files = append(s.files, len(r.GetResponseChunk().GetFiles()))
	maxFile := 0
	for _, f := range r.GetResponseChunk().GetFiles() {
		maxFile = max(maxFile, proto.Size(f))
		s.allFiles = append(s.allFiles, string(f.GetFileName()))
	}
	s.maxFile = append(s.maxFile, maxFile)
	return nil
}

func TestHuntFChunkExceedsMessageBudget(t *testing.T) {
	const budget = 1 << 20 // grpc/chunk.maxMessageSize

	res := &zoekt.SearchResult{Stats: zoekt.Stats{FileCount: 30000, MatchCount: 30000}}
	for i := 0; i < 30000; i++ {
		res.Files = append(res.Files, zoekt.FileMatch{
			FileName:   fmt.Sprintf("src/pkg/file%06d.go", i),
			Repository: "github.com/org/repo",
			Language:   "Go",
			LineMatches: []zoekt.LineMatch{{
				Line:          []byte("func main() {"),
				LineNumber:    3,
				LineFragments: []zoekt.LineFragmentMatch{{LineOffset: 5, MatchLength: 4}},
			}},
		})
	}

	ss := &huntFSizeStream{}
	gRPCChunkSender(ss).Send(res)

	if len(ss.allFiles) != len(res.Files) {
		t.Fatalf("delivered %d files, want %d", len(ss.allFiles), len(res.Files))
	}
	for i, size := range ss.sizes {
		t.Logf("message %d: %d files, largest file %d bytes, message %d bytes", i, ss.files[i], ss.maxFile[i], size)
		if size > budget && ss.files[i] > 1 {
			t.Errorf("message %d is %d bytes (%d over the %d byte budget) although it holds %d files of at most %d bytes each",
				i, size, size-budget, budget, ss.files[i], ss.maxFile[i])
		}
	}
}
