package zoekt

// Finding 2 (C26): reposMapEncode writes IndexTimeUnix as uint64(int64), and
// the hardened binaryReader.uvarint now rejects every varint above
// math.MaxInt, so a ReposMap holding a negative IndexTimeUnix (for instance
// time.Time{}.Unix(), which is what indexData.List produces for a shard without
// an index time) encodes fine and can never be decoded again.
//
// Belongs in: the repository root (package zoekt).

import (
	"bytes"
	"encoding/gob"
	"reflect"
	"testing"
	"time"
)

func TestHuntFReposMapNegativeIndexTime(t *testing.T) {
	for _, ts := range []int64{time.Time{}.Unix(), -1} {
		in := ReposMap{
			7: {
				HasSymbols:    true,
				IndexTimeUnix: ts,
				Branches:      []RepositoryBranch{{Name: "HEAD", Version: "deadbeef"}},
			},
		}

		b, err := reposMapEncode(in)
		if err != nil {
			t.Fatalf("encode: %v", err)
		}
		out, err := reposMapDecode(b)
		if err != nil {
			t.Errorf("IndexTimeUnix=%d: decoding the encoder's own output failed: %v", ts, err)
			continue
		}
		if !reflect.DeepEqual(in, out) {
			t.Errorf("IndexTimeUnix=%d: round trip changed the value:\n in  %+v\n out %+v", ts, in, out)
		}
	}

	// Same thing through the public path (gob uses Marshal/UnmarshalBinary): one
	// such entry makes the whole RepoList undecodable.
	rl := RepoList{ReposMap: ReposMap{7: {IndexTimeUnix: time.Time{}.Unix()}}}
	var buf bytes.Buffer
	if err := gob.NewEncoder(&buf).Encode(&rl); err != nil {
		t.Fatalf("gob encode: %v", err)
	}
	var back RepoList
	if err := gob.NewDecoder(&buf).Decode(&back); err != nil {
		t.Errorf("gob round trip of RepoList failed: %v", err)
	}
}
