// Copy to: index/   (package index)
//
// C03: "... its before/after context is exactly the requested number of
// neighbouring lines (fewer only at the file boundaries). Every chunk match
// consists of whole lines starting at its reported start location, contains
// all of its ranges ...".
//
// NumContextLines larger than the file must simply yield all lines up to the
// file boundaries. With NumContextLines = math.MaxInt ("all the context there
// is") the line arithmetic in contentprovider.go overflows:
//   - fillContentMatches: getLines(data, num+1, num+1+numContextLines) gets a
//     negative upper bound, so After is empty although lines follow;
//   - fillContentChunkMatches: getLines(data, firstLine, lastLine+numContextLines+1)
//     gets a negative upper bound, so the chunk Content is empty and does not
//     even contain its own range.
// (math.MaxInt-10 works, which shows that it is only the overflow.)
package index

import (
	"context"
	"math"
	"testing"

	"github.com/sourcegraph/zoekt"
	"github.com/sourcegraph/zoekt/query"
)

func TestFinding3_HugeNumContextLinesOverflows(t *testing.T) {
	content := "l1\nl2\nl3 needle\nl4\nl5\n"
	b := testShardBuilder(t, nil, Document{Name: "f.txt", Content: []byte(content)})
	s := searcherForTest(t, b)
	q := &query.Substring{Pattern: "needle", Content: true, CaseSensitive: true}

	t.Run("LineMatches", func(t *testing.T) {
		res, err := s.Search(context.Background(), q, &zoekt.SearchOptions{NumContextLines: math.MaxInt})
		if err != nil {
			t.Fatal(err)
		}
		if len(res.Files) != 1 || len(res.Files[0].LineMatches) != 1 {
			t.Fatalf("want one file with one line match, got %+v", res.Files)
		}
		lm := res.Files[0].LineMatches[0]
		if got, want := string(lm.Before), "l1\nl2\n"; got != want {
			t.Errorf("Before = %q, want %q", got, want)
		}
		if got, want := string(lm.After), "l4\nl5\n"; got != want {
			t.Errorf("After = %q, want %q (all lines up to the end of the file)", got, want)
		}
	})

	t.Run("ChunkMatches", func(t *testing.T) {
		res, err := s.Search(context.Background(), q, &zoekt.SearchOptions{ChunkMatches: true, NumContextLines: math.MaxInt})
		if err != nil {
			t.Fatal(err)
		}
		if len(res.Files) != 1 || len(res.Files[0].ChunkMatches) != 1 {
			t.Fatalf("want one file with one chunk, got %+v", res.Files)
		}
		cm := res.Files[0].ChunkMatches[0]
		start := cm.ContentStart.ByteOffset
		end := start + uint32(len(cm.Content))
		for _, r := range cm.Ranges {
			if r.Start.ByteOffset < start || r.End.ByteOffset > end {
				t.Errorf("chunk [%d,%d) Content=%q does not contain its range [%d,%d)", start, end, cm.Content, r.Start.ByteOffset, r.End.ByteOffset)
			}
		}
		if got := string(cm.Content); got != content {
			t.Errorf("chunk Content = %q, want the whole file %q", got, content)
		}
	})
}
