// Copy to: index/   (package index)
//
// C03: "Every chunk match consists of whole lines starting at its reported
// start location, contains all of its ranges ...".
//
// When MaxMatchDisplayCount cuts a chunk in the middle (the chunk has more
// ranges than the remaining limit), limitChunkMatches (index/limit.go) trims
// Content assuming that "Content never has a trailing newline". Content does
// carry the terminating newline of its last line whenever the file has one, so
// the trimmed chunk keeps one line too many and that line is cut right before
// its newline: the chunk no longer consists of whole lines of the file.
package index

import (
	"context"
	"testing"

	"github.com/sourcegraph/zoekt"
	"github.com/sourcegraph/zoekt/query"
)

func TestFinding1_DisplayLimitCutsChunkMidLine(t *testing.T) {
	content := []byte("l1 needle\nl2 needle\nl3 needle\nl4\n")
	b := testShardBuilder(t, nil, Document{Name: "f.txt", Content: content})
	searcher := searcherForTest(t, b)

	// One line of context joins the three matching lines into a single chunk.
	opts := zoekt.SearchOptions{ChunkMatches: true, NumContextLines: 1, MaxMatchDisplayCount: 1}
	res, err := searcher.Search(context.Background(), &query.Substring{Pattern: "needle", Content: true, CaseSensitive: true}, &opts)
	if err != nil {
		t.Fatal(err)
	}
	// This is what the aggregating searcher (search/aggregate.go, search/shards.go)
	// applies to enforce the display limits.
	files := SortAndTruncateFiles(res.Files, &opts)
	if len(files) != 1 || len(files[0].ChunkMatches) != 1 {
		t.Fatalf("want 1 file with 1 chunk, got %+v", files)
	}
	cm := files[0].ChunkMatches[0]
	if len(cm.Ranges) != 1 {
		t.Fatalf("want 1 range under MaxMatchDisplayCount=1, got %d", len(cm.Ranges))
	}

	start := int(cm.ContentStart.ByteOffset)
	end := start + len(cm.Content)
	if end > len(content) || string(content[start:end]) != string(cm.Content) {
		t.Fatalf("chunk content %q is not the file content at its start offset %d", cm.Content, start)
	}
	// Whole lines: the chunk has to stop at a line boundary, that is at the end
	// of the file or right after a newline.
	if end != len(content) && content[end-1] != '\n' {
		t.Errorf("chunk does not consist of whole lines: Content=%q stops at offset %d in the middle of line %q",
			cm.Content, end, "l3 needle\n")
	}
	// The only remaining range is on line 1 and one line of context was requested.
	if want := "l1 needle\nl2 needle\n"; string(cm.Content) != want {
		t.Errorf("chunk Content = %q, want %q", cm.Content, want)
	}
}
