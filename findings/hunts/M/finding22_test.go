// Copy to: the repository root   (package zoekt)
//
// C24: "Every ... search option set ... survives conversion to the wire format
// and back unchanged (up to the representation of empty collections)."
//
// SearchOptions.SpanContext (the tracing span context handed over by the
// client) has no counterpart in webserverv1.SearchOptions: ToProto drops it
// and the server always sees a nil SpanContext. (The upstream round-trip test
// hides this by clearing the field before comparing.)
package zoekt

import (
	"testing"
	"time"

	"github.com/google/go-cmp/cmp"
	"github.com/google/go-cmp/cmp/cmpopts"
	"google.golang.org/protobuf/proto"

	webserverv1 "github.com/sourcegraph/zoekt/grpc/protos/zoekt/webserver/v1"
)

func TestC24Finding22_SearchOptionsSpanContextSurvivesWire(t *testing.T) {
	want := &SearchOptions{
		ShardMaxMatchCount: 10,
		MaxWallTime:        time.Second,
		Trace:              true,
		SpanContext:        map[string]string{"uber-trace-id": "4bf92f3577b34da6:00f067aa0ba902b7:0:1"},
	}

	b, err := proto.Marshal(want.ToProto())
	if err != nil {
		t.Fatal(err)
	}
	var p webserverv1.SearchOptions
	if err := proto.Unmarshal(b, &p); err != nil {
		t.Fatal(err)
	}
	got := SearchOptionsFromProto(&p)

	if d := cmp.Diff(want, got, cmpopts.EquateEmpty()); d != "" {
		t.Fatalf("search options changed on the wire (-sent +received):\n%s", d)
	}
}
