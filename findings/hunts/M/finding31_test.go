// Copy to: cmd/zoekt-sourcegraph-indexserver (package main)
//
// LOWER CONFIDENCE / borderline finding.
//
// Property C31: "... an operation skipped because its repository is busy is
// reported as skipped."
//
// Root cause: Server.handleReindex (POST /debug/reindex, used by the
// Sourcegraph "Reindex now" button) runs forceIndex in a goroutine and throws
// its result away: `go func() { s.forceIndex(context.Background(), id) }()`.
// When muIndexDir.With reports that the repository is busy, forceIndex returns
// the message "index job for repository already running: ..." - but nobody
// receives it. The HTTP response is "202 Accepted" (documented as "If a reindex
// was triggered the request returns with status 202") with an empty body, and
// nothing is written to any log. The skipped reindex is indistinguishable from
// a reindex that ran. (The only trace is the anonymous process-wide counter
// index_mutex_already_running_total, which the test uses to know that the
// operation was in fact skipped.)
package main

import (
	"bytes"
	"context"
	"errors"
	"io"
	"net/http"
	"net/http/httptest"
	"net/url"
	"strings"
	"sync"
	"testing"
	"time"

	"github.com/prometheus/client_golang/prometheus/testutil"
	"github.com/sourcegraph/log/logtest"

	"github.com/sourcegraph/zoekt"
)

type c31ReindexSourcegraph struct {
	entered chan uint32   // an index op reached UpdateIndexStatus (inside the repo lock)
	release chan struct{} // closed to let index ops finish
}

func (f *c31ReindexSourcegraph) List(ctx context.Context, indexed []uint32) (*SourcegraphListResult, error) {
	return nil, errors.New("not implemented")
}

func (f *c31ReindexSourcegraph) ForceIterateIndexOptions(onSuccess func(IndexOptions), onError func(uint32, error), repos ...uint32) {
	for _, id := range repos {
		onSuccess(IndexOptions{
			RepoID:   id,
			Name:     "github.com/org/repo",
			TenantID: 1,
			CloneURL: "/nonexistent/c31/does-not-exist.git",
			Branches: []zoekt.RepositoryBranch{{Name: "HEAD", Version: "deadbeefdeadbeefdeadbeefdeadbeefdeadbeef"}},
		})
	}
}

func (f *c31ReindexSourcegraph) UpdateIndexStatus(repositories []indexStatus) error {
	for _, r := range repositories {
		f.entered <- r.RepoID
	}
	<-f.release
	return nil
}

type c31SyncBuffer struct {
	mu sync.Mutex
	b  bytes.Buffer
}

func (b *c31SyncBuffer) Write(p []byte) (int, error) {
	b.mu.Lock()
	defer b.mu.Unlock()
	return b.b.Write(p)
}

func (b *c31SyncBuffer) String() string {
	b.mu.Lock()
	defer b.mu.Unlock()
	return b.b.String()
}

func TestC31_ReindexSkippedBecauseBusyIsNotReported(t *testing.T) {
	t.Setenv("TMPDIR", t.TempDir())

	// Capture everything the indexserver logs.
	logs := &c31SyncBuffer{}
	for _, l := range []interface {
		SetOutput(io.Writer)
		Writer() io.Writer
	}{debugLog, infoLog, errorLog} {
		old := l.Writer()
		l.SetOutput(logs)
		defer l.SetOutput(old)
	}
	logger, exportLogs := logtest.Captured(t)

	sg := &c31ReindexSourcegraph{
		entered: make(chan uint32, 4),
		release: make(chan struct{}),
	}
	s := &Server{
		logger:           logger,
		Sourcegraph:      sg,
		IndexDir:         t.TempDir(),
		CPUCount:         1,
		IndexConcurrency: 1,
		timeout:          30 * time.Second,
	}

	// An index operation for repository 1 is in flight.
	first := make(chan string, 1)
	go func() {
		msg, _ := s.forceIndex(context.Background(), 1)
		first <- msg
	}()
	select {
	case <-sg.entered:
	case m := <-first:
		t.Fatalf("first index operation returned early: %s", m)
	case <-time.After(60 * time.Second):
		t.Fatal("first index operation did not start")
	}

	skippedBefore := testutil.ToFloat64(metricIndexMutexAlreadyRunning)

	// Request a reindex of the same repository through the HTTP API.
	mux := http.NewServeMux()
	s.queue = NewQueue(0, 0, logger)
	s.addDebugHandlers(mux)
	srv := httptest.NewServer(mux)
	defer srv.Close()

	resp, err := http.PostForm(srv.URL+"/debug/reindex", url.Values{"repo": {"1"}})
	if err != nil {
		t.Fatal(err)
	}
	body, _ := io.ReadAll(resp.Body)
	resp.Body.Close()

	// Wait until the reindex operation has been skipped by the index mutex.
	deadline := time.Now().Add(20 * time.Second)
	for testutil.ToFloat64(metricIndexMutexAlreadyRunning) == skippedBefore {
		select {
		case <-sg.entered:
			t.Fatal("reindex ran concurrently with the in-flight index operation")
		default:
		}
		if time.Now().After(deadline) {
			t.Fatal("reindex operation was neither run nor skipped")
		}
		time.Sleep(10 * time.Millisecond)
	}
	time.Sleep(200 * time.Millisecond) // give the goroutine time to report

	close(sg.release)
	<-first

	// The operation was skipped because its repository was busy. Was that
	// reported to the requester or to any log?
	var all strings.Builder
	all.WriteString(string(body))
	all.WriteString(logs.String())
	for _, e := range exportLogs() {
		all.WriteString(e.Message)
		for k, v := range e.Fields {
			all.WriteString(" " + k + "=")
			if sv, ok := v.(string); ok {
				all.WriteString(sv)
			}
		}
		all.WriteString("\n")
	}
	reported := resp.StatusCode != http.StatusAccepted ||
		strings.Contains(all.String(), "already running") ||
		strings.Contains(strings.ToLower(all.String()), "skip")
	if !reported {
		t.Fatalf("C31 violated: reindex of repository 1 was skipped because the repository was busy, "+
			"but this is reported nowhere: HTTP status %d (\"reindex was triggered\"), body %q, logs %q",
			resp.StatusCode, body, logs.String())
	}
}
