// Copy to: index/   (package index)
//
// C02: "... for a single regular expression they [the reported ranges] cover
// exactly the bytes of the engine's non-empty matches".
//
// The case-folding literal (?i)μμμ (GREEK SMALL LETTER MU, U+03BC) is distilled
// by regexpToMatchTreeRecursive into a case-insensitive substring tree that is
// declared equivalent to the regexp (isEqual), so the regexp engine never runs.
// regexp/syntax stores a folding literal by the smallest rune of its fold
// orbit, which for mu is MICRO SIGN U+00B5. candidateMatch.matchContent compares
// with unicode.ToLower, under which U+03BC (lower case already) is not equal to
// U+00B5: the occurrence that is spelled exactly like the query is dropped and
// only the micro-sign spelling is reported. The regexp engine used by zoekt
// (grafana/regexp, like the standard library) matches both.
// Same root cause: (?i)σσσ misses "ςςς", (?i)sss misses "ſſſ" (standard engine).
package index

import (
	"context"
	"fmt"
	"testing"

	"github.com/grafana/regexp"

	"github.com/sourcegraph/zoekt"
	"github.com/sourcegraph/zoekt/query"
)

func TestFinding2_FoldedLiteralRegexpMissesEngineMatches(t *testing.T) {
	const pattern = "(?i)μμμ"
	content := []byte("μμμ µµµ\n") // "μμμ µµµ\n": Greek mu x3, micro sign x3

	q, err := query.RegexpQuery(pattern, true, false)
	if err != nil {
		t.Fatal(err)
	}
	if _, ok := q.(*query.Regexp); !ok {
		t.Fatalf("expected a single regexp query, got %T %s", q, q)
	}

	// The engine's matches.
	var want [][2]uint32
	for _, m := range regexp.MustCompile(pattern).FindAllIndex(content, -1) {
		if m[1] > m[0] {
			want = append(want, [2]uint32{uint32(m[0]), uint32(m[1])})
		}
	}
	if len(want) != 2 {
		t.Fatalf("test assumption: engine finds both spellings, got %v", want)
	}

	b := testShardBuilder(t, nil, Document{Name: "f.txt", Content: content})
	for _, chunk := range []bool{true, false} {
		res, err := searcherForTest(t, b).Search(context.Background(), q, &zoekt.SearchOptions{ChunkMatches: chunk})
		if err != nil {
			t.Fatal(err)
		}
		var got [][2]uint32
		for _, f := range res.Files {
			for _, cm := range f.ChunkMatches {
				for _, r := range cm.Ranges {
					got = append(got, [2]uint32{r.Start.ByteOffset, r.End.ByteOffset})
				}
			}
			for _, lm := range f.LineMatches {
				for _, fr := range lm.LineFragments {
					got = append(got, [2]uint32{fr.Offset, fr.Offset + uint32(fr.MatchLength)})
				}
			}
		}
		if fmt.Sprint(got) != fmt.Sprint(want) {
			t.Errorf("ChunkMatches=%v: regexp %s on %q reports ranges %v, the regexp engine matches %v", chunk, pattern, content, got, want)
		}
	}
}
