// Copy to: the repository root   (package zoekt)
//
// C24: "Every ... search result ... survives conversion to the wire format and
// back unchanged (up to the representation of empty collections)."
//
// Every shard search fills SearchResult.RepoURLs and SearchResult.LineFragments
// (index/eval.go: res.RepoURLs[repo.Name] = repo.FileURLTemplate, ...), and
// the web UI needs them to render links. webserverv1.SearchResponse has no
// field for either map: SearchResult.ToProto drops both, so a receiver that
// only has the wire message (it can pass nothing but nil to
// SearchResultFromProto) gets a result without them.
package zoekt

import (
	"testing"

	"github.com/google/go-cmp/cmp"
	"github.com/google/go-cmp/cmp/cmpopts"
	"google.golang.org/protobuf/proto"

	webserverv1 "github.com/sourcegraph/zoekt/grpc/protos/zoekt/webserver/v1"
)

func TestC24Finding23_SearchResultURLTemplatesSurviveWire(t *testing.T) {
	want := &SearchResult{
		Stats: Stats{FileCount: 1, MatchCount: 1},
		Files: []FileMatch{{
			FileName:   "main.go",
			Repository: "github.com/sourcegraph/zoekt",
			Branches:   []string{"HEAD"},
			Version:    "deadbeef",
		}},
		RepoURLs:      map[string]string{"github.com/sourcegraph/zoekt": "https://github.com/sourcegraph/zoekt/blob/{{.Version}}/{{.Path}}"},
		LineFragments: map[string]string{"github.com/sourcegraph/zoekt": "#L{{.LineNumber}}"},
	}

	// Go -> wire
	b, err := proto.Marshal(want.ToProto())
	if err != nil {
		t.Fatal(err)
	}

	// wire -> Go: the receiver has nothing but the wire message.
	var p webserverv1.SearchResponse
	if err := proto.Unmarshal(b, &p); err != nil {
		t.Fatal(err)
	}
	got := SearchResultFromProto(&p, nil, nil)

	if d := cmp.Diff(want, got, cmpopts.EquateEmpty()); d != "" {
		t.Fatalf("search result changed on the wire (-sent +received):\n%s", d)
	}
}
