package search

import (
	"context"
	"runtime"
	"slices"
	"testing"

	"github.com/sourcegraph/zoekt"
	"github.com/sourcegraph/zoekt/index"
	"github.com/sourcegraph/zoekt/query"
)

// C22: a display limit that does not even bind (100 files allowed, 9 exist)
// changes the ORDER of the result, so the limited result is not the beginning
// of the unlimited ranked result; a binding limit (7) then returns a different
// file set.
//
// Files at the same position of equally sized shards get identical scores (a
// very common tie). Without a display limit collectSender ranks once, in
// Done. With a display limit it calls index.SortFiles after every chunk.
// SortFiles is not idempotent: boostNovelExtension moves r.txt in front of its
// tied peer c.go while only shards x and y are aggregated, and the next
// sort.Sort (insertion sort for small inputs, i.e. stable) keeps that order
// although r.txt is not the boosted file any more once shard z (u.txt) arrived.
func TestHuntK2_NonBindingDisplayLimitChangesRanking(t *testing.T) {
	// One worker: shards are searched and aggregated in the order x, y, z.
	defer runtime.GOMAXPROCS(runtime.GOMAXPROCS(1))

	ss := newShardedSearcher(1)
	add := func(repo string, id uint32, names ...string) {
		var docs []index.Document
		for _, n := range names {
			docs = append(docs, index.Document{Name: n, Content: []byte("needle")})
		}
		b := testShardBuilder(t, &zoekt.Repository{ID: id, Name: repo}, docs...)
		ss.replace(map[string]zoekt.Searcher{repo: searcherForTest(t, b)})
	}
	add("x", 1, "a.go", "b.go", "c.go")
	add("y", 2, "p.go", "q.go", "r.txt")
	add("z", 3, "u.txt", "v.go", "w.go")

	q := &query.Substring{Pattern: "needle", Content: true}
	names := func(files []zoekt.FileMatch) []string {
		var out []string
		for _, f := range files {
			out = append(out, f.FileName)
		}
		return out
	}

	full, err := ss.Search(context.Background(), q, &zoekt.SearchOptions{})
	if err != nil {
		t.Fatal(err)
	}
	if len(full.Files) != 9 {
		t.Fatalf("got %d files, want 9", len(full.Files))
	}

	for _, limit := range []int{100, 7} {
		limited, err := ss.Search(context.Background(), q, &zoekt.SearchOptions{MaxDocDisplayCount: limit})
		if err != nil {
			t.Fatal(err)
		}
		want := names(full.Files)
		if limit < len(want) {
			want = want[:limit]
		}
		if got := names(limited.Files); !slices.Equal(got, want) {
			t.Errorf("MaxDocDisplayCount=%d: got %v\nwant the beginning of the unlimited ranking %v", limit, got, names(full.Files))
		}
	}
}
