package search

// Finding 2 (C11): one flipped bit in the posting-offset table of ONE shard
// makes every Search and List of the whole directory fail with an error for
// queries that touch the damaged posting list: the results of the healthy
// shards are thrown away.
//
// Belongs in: search/   (package search). Needs huntHSmallShard from
// finding1_test.go.

import (
	"context"
	"os"
	"path/filepath"
	"testing"
	"time"

	"github.com/sourcegraph/zoekt"
	"github.com/sourcegraph/zoekt/query"
)

// Offset (in the shard produced by huntHSmallShard) of a byte of the
// content-ngram posting offset table ("postings" compound section index).
// Flipping bit 4 moves the start of one posting list of the trigrams of
// "needle" far beyond the end of the file.
const (
	huntHPostingIndexOffset = 679
	huntHPostingIndexFlip   = 0x10
)

func TestHuntH_C11_CorruptShardFailsWholeDirectory(t *testing.T) {
	dir := t.TempDir()

	if err := os.WriteFile(filepath.Join(dir, "healthy_v16.00000.zoekt"), huntHSmallShard(t, "healthy", 1), 0o644); err != nil {
		t.Fatal(err)
	}

	data := huntHSmallShard(t, "victim", 2)
	data[huntHPostingIndexOffset] ^= huntHPostingIndexFlip
	corrupt := filepath.Join(dir, "victim_v16.00000.zoekt")
	if err := os.WriteFile(corrupt, data, 0o644); err != nil {
		t.Fatal(err)
	}

	// Preconditions: the corrupt shard is accepted by the loader (so it is
	// served), and searching it alone reports an error.
	s, err := loadShard(corrupt)
	if err != nil {
		t.Skipf("precondition: corrupt shard is rejected at load time (%v); pick another offset", err)
	}
	q := &query.Substring{Pattern: "needle"}
	if _, err := s.Search(context.Background(), q, &zoekt.SearchOptions{}); err == nil {
		t.Skip("precondition: the corruption at the pinned offset does not disturb this query; pick another offset")
	} else {
		t.Logf("corrupt shard alone: Search error: %v", err)
	}
	s.Close()

	ss, err := NewDirectorySearcher(dir)
	if err != nil {
		t.Fatal(err)
	}
	defer ss.Close()

	ctx, cancel := context.WithTimeout(context.Background(), 30*time.Second)
	defer cancel()

	// Both shards are served.
	all, err := ss.List(ctx, &query.Const{Value: true}, nil)
	if err != nil {
		t.Fatal(err)
	}
	if len(all.Repos) != 2 {
		t.Fatalf("expected both shards to be served, List(true) returned %d repos", len(all.Repos))
	}

	failed := false

	sr, err := ss.Search(ctx, q, &zoekt.SearchOptions{})
	if err != nil {
		failed = true
		t.Errorf("C11 violated: Search over the directory fails because of ONE corrupt shard; results of the healthy shard are lost: %v", err)
	} else {
		healthy := 0
		for _, f := range sr.Files {
			if f.Repository == "healthy" {
				healthy++
			}
		}
		if healthy != 2 {
			failed = true
			t.Errorf("C11 violated: want the 2 files of the healthy shard, got %d (crashes=%d)", healthy, sr.Stats.Crashes)
		}
	}

	rl, err := ss.List(ctx, q, nil)
	if err != nil {
		failed = true
		t.Errorf("C11 violated: List over the directory fails because of ONE corrupt shard: %v", err)
	} else {
		found := false
		for _, r := range rl.Repos {
			found = found || r.Repository.Name == "healthy"
		}
		if !found {
			failed = true
			t.Errorf("C11 violated: List does not report the healthy repository: %+v", rl.Repos)
		}
	}

	if !failed {
		t.Log("ok: healthy shard unaffected")
	}
}
