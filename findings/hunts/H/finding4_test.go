package search

// Finding 4 (C18): the branches-repos -> branch rewrite done by selectRepoSet
// changes the FileMatch that is returned for a file: FileMatch.Branches loses
// branches compared with what the shard returns for the original query.
//
// Belongs in: search/   (package search)

import (
	"bytes"
	"context"
	"fmt"
	"testing"

	"github.com/RoaringBitmap/roaring/v2"

	"github.com/sourcegraph/zoekt"
	"github.com/sourcegraph/zoekt/index"
	"github.com/sourcegraph/zoekt/query"
)

func TestHuntH_C18_BranchesReposRewriteChangesFileMatch(t *testing.T) {
	b, err := index.NewShardBuilder(&zoekt.Repository{
		ID:   1,
		Name: "r1",
		Branches: []zoekt.RepositoryBranch{
			{Name: "main", Version: "v-main"},
			{Name: "dev", Version: "v-dev"},
		},
	})
	if err != nil {
		t.Fatal(err)
	}
	if err := b.Add(index.Document{Name: "f.txt", Content: []byte("alpha\n"), Branches: []string{"main", "dev"}}); err != nil {
		t.Fatal(err)
	}
	var buf bytes.Buffer
	if err := b.Write(&buf); err != nil {
		t.Fatal(err)
	}
	shard, err := index.NewSearcher(&memSeeker{buf.Bytes()})
	if err != nil {
		t.Fatal(err)
	}

	// "alpha" on branch dev of repository 1. No branch is named HEAD or "".
	q := &query.And{Children: []query.Q{
		&query.BranchesRepos{List: []query.BranchRepos{{Branch: "dev", Repos: roaring.BitmapOf(1)}}},
		&query.Substring{Pattern: "alpha", Content: true},
	}}
	opts := &zoekt.SearchOptions{}
	ctx := context.Background()

	// The shard on its own, original query.
	want, err := shard.Search(ctx, q, opts)
	if err != nil {
		t.Fatal(err)
	}

	// The same shard behind the sharded searcher.
	ss := newShardedSearcher(2)
	ss.replace(map[string]zoekt.Searcher{"r1": shard})
	ss.markReady()
	defer ss.Close()
	got, err := ss.Search(ctx, q, opts)
	if err != nil {
		t.Fatal(err)
	}

	if len(want.Files) != 1 || len(got.Files) != 1 {
		t.Fatalf("expected one file from both: shard=%d sharded=%d", len(want.Files), len(got.Files))
	}
	w, g := want.Files[0], got.Files[0]
	if fmt.Sprint(g.Branches) != fmt.Sprint(w.Branches) {
		t.Fatalf("C18 violated: %s: file %s/%s has Branches=%v from the sharded searcher but Branches=%v from the shard searched on its own with the original query (rewritten to %s)",
			q, g.Repository, g.FileName, g.Branches, w.Branches, "(and branch=dev ...)")
	}
}
