// Copy to: gitindex/   (package gitindex)
//
// C13: "After any sequence of commits and indexing runs in which some runs are
// delta builds, a search restricted to any indexed branch finds, for every
// file in that branch's head commit, exactly one document with the head
// content, and no document for paths absent from the head."
// (also C17: "a file path recorded as tombstoned for a repository never
// appears in search results")
//
// Git paths are byte strings; a file name in a legacy encoding (here Latin-1
// "caf\xe9.txt") is not valid UTF-8. A delta build records the changed path
// as a file tombstone in the ".meta" JSON sidecar of the older shards.
// encoding/json replaces the invalid byte by U+FFFD, so after the sidecar is
// read back the tombstone no longer equals the document name stored in the
// shard: the stale document stays visible next to the new one, and a deleted
// file stays searchable.
package gitindex

import (
	"context"
	"os"
	"path/filepath"
	"sort"
	"testing"

	git "github.com/go-git/go-git/v5"
	"github.com/go-git/go-git/v5/plumbing"

	"github.com/sourcegraph/zoekt"
	"github.com/sourcegraph/zoekt/index"
	"github.com/sourcegraph/zoekt/query"
	"github.com/sourcegraph/zoekt/search"
)

// seedLBranchView returns name -> contents of every document a search
// restricted to the branch finds.
func seedLBranchView(t *testing.T, indexDir, branch string) map[string][]string {
	t.Helper()
	ss, err := search.NewDirectorySearcher(indexDir)
	if err != nil {
		t.Fatalf("NewDirectorySearcher: %v", err)
	}
	defer ss.Close()

	q := &query.And{Children: []query.Q{
		&query.Branch{Pattern: branch, Exact: true},
		&query.Const{Value: true},
	}}
	res, err := ss.Search(context.Background(), q, &zoekt.SearchOptions{Whole: true})
	if err != nil {
		t.Fatalf("Search: %v", err)
	}
	view := map[string][]string{}
	for _, f := range res.Files {
		view[f.FileName] = append(view[f.FileName], string(f.Content))
	}
	for _, v := range view {
		sort.Strings(v)
	}
	return view
}

func seedLIndex(t *testing.T, repoDir, indexDir string, branches []string, delta bool) {
	t.Helper()
	opts := Options{
		RepoDir:  filepath.Join(repoDir, ".git"),
		Branches: branches,
		BuildOptions: index.Options{
			IndexDir:              indexDir,
			RepositoryDescription: zoekt.Repository{Name: "repository"},
			IsDelta:               delta,
			DisableCTags:          true,
		},
	}
	deltaUsed := false
	_, err := indexGitRepo(opts, gitIndexConfig{
		prepareDeltaBuild: func(o Options, r *git.Repository) (map[fileKey]BlobLocation, map[string]map[string]plumbing.Hash, []string, error) {
			a, b, c, err := prepareDeltaBuild(o, r)
			deltaUsed = err == nil
			return a, b, c, err
		},
	})
	if err != nil {
		t.Fatalf("indexGitRepo(delta=%t): %v", delta, err)
	}
	if delta && !deltaUsed {
		t.Fatalf("the run was meant to be a delta build but fell back to a normal build")
	}
}

func TestSeedL_DeltaNonUTF8Path(t *testing.T) {
	repoDir := t.TempDir()
	indexDir := t.TempDir()

	name := "caf\xe9.txt" // Latin-1 file name: valid for git, not valid UTF-8

	runGit(t, repoDir, "init", "-b", "main")
	if err := os.WriteFile(filepath.Join(repoDir, name), []byte("strawberry\n"), 0o644); err != nil {
		t.Skipf("file system refuses the file name: %v", err)
	}
	if err := os.WriteFile(filepath.Join(repoDir, "ok.txt"), []byte("plain\n"), 0o644); err != nil {
		t.Fatal(err)
	}
	runGit(t, repoDir, "add", "-A")
	runGit(t, repoDir, "commit", "-m", "one")

	seedLIndex(t, repoDir, indexDir, []string{"main"}, false)

	view := seedLBranchView(t, indexDir, "main")
	if got := view[name]; len(got) != 1 || got[0] != "strawberry\n" {
		t.Fatalf("after the full build: documents for %q = %q, want one with the head content", name, got)
	}

	// Commit 2 modifies the file; index it with a delta build.
	if err := os.WriteFile(filepath.Join(repoDir, name), []byte("grapes\n"), 0o644); err != nil {
		t.Fatal(err)
	}
	runGit(t, repoDir, "add", "-A")
	runGit(t, repoDir, "commit", "-m", "two")

	seedLIndex(t, repoDir, indexDir, []string{"main"}, true)

	view = seedLBranchView(t, indexDir, "main")
	if got := view[name]; len(got) != 1 || got[0] != "grapes\n" {
		t.Errorf("after the delta build of the modification: branch main has documents %q for %q, want exactly one with the head content \"grapes\\n\"", got, name)
	}

	// Commit 3 deletes the file; index it with a delta build.
	if err := os.Remove(filepath.Join(repoDir, name)); err != nil {
		t.Fatal(err)
	}
	runGit(t, repoDir, "add", "-A")
	runGit(t, repoDir, "commit", "-m", "three")

	seedLIndex(t, repoDir, indexDir, []string{"main"}, true)

	view = seedLBranchView(t, indexDir, "main")
	if got := view[name]; len(got) != 0 {
		t.Errorf("after the delta build of the deletion: branch main still has documents %q for %q, which is absent from the head commit", got, name)
	}
	if got := view["ok.txt"]; len(got) != 1 || got[0] != "plain\n" {
		t.Errorf("ok.txt: got %q", got)
	}
}
