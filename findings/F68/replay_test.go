// Copy to: query/   (package query)
//
// C24: "Every query ... survives conversion to the wire format and back
// unchanged."
//
// File names in zoekt are arbitrary byte strings (FileMatch.file_name is
// `bytes` on the wire for exactly that reason), but the query messages that
// carry file names / patterns (FileNameSet.set, Substring.pattern) are proto3
// `string` fields. A query naming a non-UTF-8 file cannot be serialised at
// all: QToProto succeeds, but the resulting message is rejected by the
// protobuf encoder, so the query never reaches the server.
package query

import (
	"reflect"
	"testing"

	"google.golang.org/protobuf/proto"

	webserverv1 "github.com/sourcegraph/zoekt/grpc/protos/zoekt/webserver/v1"
)

func TestC24Finding20_NonUTF8QuerySurvivesWire(t *testing.T) {
	// "caf\xe9.txt" is "café.txt" in Latin-1: a legal git/zoekt file name
	// (zoekt returns such names in FileMatch.FileName).
	name := "caf\xe9.txt"

	cases := []Q{
		&FileNameSet{Set: map[string]struct{}{name: {}}},
		&Substring{Pattern: name, FileName: true, CaseSensitive: true},
	}

	for _, q := range cases {
		// Go -> wire
		b, err := proto.Marshal(QToProto(q))
		if err != nil {
			t.Errorf("%s: query cannot be converted to the wire format: %v", q, err)
			continue
		}

		// wire -> Go
		var p webserverv1.Q
		if err := proto.Unmarshal(b, &p); err != nil {
			t.Errorf("%s: wire bytes cannot be decoded: %v", q, err)
			continue
		}
		got, err := QFromProto(&p)
		if err != nil {
			t.Errorf("%s: QFromProto: %v", q, err)
			continue
		}
		if !reflect.DeepEqual(q, got) {
			t.Errorf("query changed on the wire: sent %#v, received %#v", q, got)
		}
	}
}
