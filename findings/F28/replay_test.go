package index

// Finding 1 (C02): substring matches that follow more than 75 four-byte
// runes inside one 100-rune sampling block are silently lost, because
// contentProvider.findOffset only reads 3*runeOffsetFrequency = 300 bytes
// to walk up to 99 runes (which can take 396 bytes).
//
// Place in: index/   Run:
//   go test -vet=off -count=1 -run TestHuntCFindOffsetFourByteRunes ./index/

import (
	"bytes"
	"strings"
	"testing"

	"github.com/sourcegraph/zoekt"
	"github.com/sourcegraph/zoekt/query"
)

func TestHuntCFindOffsetFourByteRunes(t *testing.T) {
	// n four-byte runes (U+1F600) followed by the needle. 75 runes = 300 bytes
	// still works; from 76 on the match is lost.
	for _, n := range []int{10, 75, 76, 90} {
		content := []byte(strings.Repeat("\U0001F600", n) + "needle\n")
		want := bytes.Index(content, []byte("needle"))
		b := testShardBuilder(t, nil, Document{Name: "f1", Content: content})

		for _, chunk := range []bool{false, true} {
			q := &query.Substring{Pattern: "needle", CaseSensitive: true, Content: true}
			res := searchForTest(t, b, q, zoekt.SearchOptions{ChunkMatches: chunk})
			if len(res.Files) != 1 {
				t.Errorf("n=%d chunk=%v: got %d files, want 1 file with the occurrence at byte [%d,%d)",
					n, chunk, len(res.Files), want, want+len("needle"))
				continue
			}
			var got int
			if chunk {
				got = int(res.Files[0].ChunkMatches[0].Ranges[0].Start.ByteOffset)
			} else {
				got = int(res.Files[0].LineMatches[0].LineFragments[0].Offset)
			}
			if got != want {
				t.Errorf("n=%d chunk=%v: match reported at byte %d, want %d", n, chunk, got, want)
			}
		}
	}
}
