package archive

import (
	"archive/tar"
	"os"
	"path/filepath"
	"testing"

	"github.com/sourcegraph/zoekt/index"
)

// F24: indexing an archive without regular files dereferences a nil builder.
func TestVerifReplayF24(t *testing.T) {
	dir := t.TempDir()
	ar := filepath.Join(dir, "empty.tar")
	f, err := os.Create(ar)
	if err != nil {
		t.Fatal(err)
	}
	tw := tar.NewWriter(f)
	// one directory entry, no regular file
	if err := tw.WriteHeader(&tar.Header{Name: "repo/", Typeflag: tar.TypeDir, Mode: 0o755}); err != nil {
		t.Fatal(err)
	}
	tw.Close()
	f.Close()
	defer func() {
		if r := recover(); r != nil {
			t.Fatalf("Index panicked on an archive without regular files: %v", r)
		}
	}()
	err = Index(Options{Archive: ar, Name: "repo", Branch: "HEAD"}, index.Options{IndexDir: filepath.Join(dir, "idx")})
	t.Logf("Index returned %v", err)
}
