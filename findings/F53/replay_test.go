package archive

import (
	"archive/zip"
	"bytes"
	"os"
	"path/filepath"
	"testing"

	"github.com/sourcegraph/zoekt/index"
)

// Property C15: indexing a tar, tar.gz or zip archive produces one document
// per regular archive member, for all archives including empty ones.
//
// An empty zip archive (what archive/zip, Python's zipfile, 7z ... write when
// no member is added) has zero regular members, so indexing it must succeed
// with zero documents - exactly like the empty tar, the empty tar.gz and the
// zip that holds only directories, which all index fine.
func TestHuntE_EmptyZipArchive(t *testing.T) {
	var buf bytes.Buffer
	zw := zip.NewWriter(&buf)
	if err := zw.Close(); err != nil {
		t.Fatal(err)
	}
	// Sanity: it is a well-formed zip with zero members.
	zr, err := zip.NewReader(bytes.NewReader(buf.Bytes()), int64(buf.Len()))
	if err != nil || len(zr.File) != 0 {
		t.Fatalf("sanity: zip.NewReader: %v, %d members", err, len(zr.File))
	}

	archivePath := filepath.Join(t.TempDir(), "empty.zip")
	if err := os.WriteFile(archivePath, buf.Bytes(), 0o644); err != nil {
		t.Fatal(err)
	}

	err = Index(
		Options{Archive: archivePath, Name: "repo", Branch: "main"},
		index.Options{IndexDir: t.TempDir(), DisableCTags: true},
	)
	if err != nil {
		t.Fatalf("Index(empty zip archive) failed: %v; want success with zero documents", err)
	}
}
