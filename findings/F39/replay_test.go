package search

// HuntB, related to finding 4 (C12, search/watcher.go): the same window of
// Builder.Finish (new shard renamed into place, stale ".meta" sidecar of the old
// shard not yet removed) is also harmful WITHOUT a kill. If the searcher's
// DirectoryWatcher rescans inside that window it loads the new shard together
// with the stale sidecar. When Finish then removes the sidecar, scan() does not
// notice: it only lets a sidecar influence the shard's timestamp when the sidecar
// is NEWER than the shard (watcher.go:160), so removing an OLDER sidecar leaves
// the timestamp unchanged and the shard is never reloaded. The running searcher
// keeps applying the old file tombstones / branch versions to the new shard until
// the next reindex, although the completed build installed a correct index.
//
// The interleaving is made deterministic by calling scan() from a log writer
// hooked on Finish's "removing old shard file" line (this is where fsnotify's
// rename event would wake the watcher). The loader is a minimal shardLoader that
// opens shards exactly like the real one (loadShard) but does not log.
//
// Place this file in search/ and run:
//   go test -vet=off -count=1 -run TestHuntBWatcherKeepsStaleSidecar ./search/

import (
	"context"
	"log"
	"reflect"
	"sort"
	"strings"
	"testing"
	"time"

	"github.com/sourcegraph/zoekt"
	"github.com/sourcegraph/zoekt/index"
	"github.com/sourcegraph/zoekt/query"
)

type huntBLoader struct {
	t      *testing.T
	shards map[string]zoekt.Searcher
}

func (l *huntBLoader) load(keys ...string) {
	for _, k := range keys {
		s, err := loadShard(k)
		if err != nil {
			l.t.Logf("load %s: %v", k, err)
			continue
		}
		l.shards[k] = s
	}
}

func (l *huntBLoader) drop(keys ...string) {
	for _, k := range keys {
		delete(l.shards, k)
	}
}

func (l *huntBLoader) visible() []string {
	var out []string
	for _, s := range l.shards {
		res, err := s.Search(context.Background(), &query.Const{Value: true}, &zoekt.SearchOptions{Whole: true})
		if err != nil {
			l.t.Fatal(err)
		}
		for _, f := range res.Files {
			out = append(out, f.FileName+"="+strings.SplitN(string(f.Content), " ", 2)[0])
		}
	}
	sort.Strings(out)
	return out
}

type huntBHookWriter struct {
	marker string
	hook   func()
	fired  bool
}

func (w *huntBHookWriter) Write(p []byte) (int, error) {
	if !w.fired && strings.Contains(string(p), w.marker) {
		w.fired = true
		w.hook()
	}
	return len(p), nil
}

func huntBBuild(t *testing.T, dir, gen string, files []string, delta bool, changed []string) {
	t.Helper()
	opts := index.Options{
		IndexDir: dir,
		RepositoryDescription: zoekt.Repository{
			Name: "repo", ID: 7,
			Branches: []zoekt.RepositoryBranch{{Name: "main", Version: gen}},
		},
		Parallelism:  1,
		DisableCTags: true,
		IsDelta:      delta,
	}
	opts.SetDefaults()
	b, err := index.NewBuilder(opts)
	if err != nil {
		t.Fatal(err)
	}
	for _, c := range changed {
		b.MarkFileAsChangedOrRemoved(c)
	}
	for _, f := range files {
		doc := index.Document{Name: f, Content: []byte(gen + " " + strings.Repeat("A", 100)), Branches: []string{"main"}}
		if err := b.Add(doc); err != nil {
			t.Fatal(err)
		}
	}
	if err := b.Finish(); err != nil {
		t.Fatal(err)
	}
}

func TestHuntBWatcherKeepsStaleSidecar(t *testing.T) {
	dir := t.TempDir()
	loader := &huntBLoader{t: t, shards: map[string]zoekt.Searcher{}}
	dw := &DirectoryWatcher{dir: dir, timestamps: map[string]time.Time{}, loader: loader}

	huntBBuild(t, dir, "v1", []string{"f0", "f1"}, false, nil)
	time.Sleep(20 * time.Millisecond)
	huntBBuild(t, dir, "v2", []string{"f0"}, true, []string{"f0"}) // delta: writes shard0's .meta (tombstone f0) + shard1
	if err := dw.scan(); err != nil {
		t.Fatal(err)
	}
	if got, want := loader.visible(), []string{"f0=v2", "f1=v1"}; !reflect.DeepEqual(got, want) {
		t.Fatalf("setup: after the delta build the searcher sees %q, want %q", got, want)
	}
	time.Sleep(20 * time.Millisecond)

	// Full rebuild; the watcher rescans between the renames and the removals.
	prev := log.Writer()
	log.SetOutput(&huntBHookWriter{marker: "removing old shard file", hook: func() {
		if err := dw.scan(); err != nil {
			t.Error(err)
		}
	}})
	huntBBuild(t, dir, "v3", []string{"f0", "f1"}, false, nil)
	log.SetOutput(prev)

	// The build has completed successfully; the watcher rescans once more (the
	// removals trigger fsnotify) and any number of further times.
	for i := 0; i < 3; i++ {
		if err := dw.scan(); err != nil {
			t.Fatal(err)
		}
	}
	got := loader.visible()
	want := []string{"f0=v3", "f1=v3"}
	if !reflect.DeepEqual(got, want) {
		t.Errorf("the full build completed and the watcher rescanned, but the searcher sees %q, want %q", got, want)
	}
}
