// Copy to: index/   (package index)
//
// C03: "Every chunk match consists of whole lines starting at its reported
// start location, contains all of its ranges ...".
//
// (Lower confidence: the input is out of the sensible domain, but it is
// accepted from the wire unchecked: SearchOptionsFromProto copies
// num_context_lines as is and SetDefaults does not touch it.)
//
// A negative NumContextLines is ignored in line mode (`if numContextLines > 0`)
// but not in chunk mode: fillContentChunkMatches computes the chunk as lines
// [firstLine-N, lastLine+N+1) with N<0, i.e. it shrinks the chunk. The chunk
// comes back with empty Content and a ContentStart located after the match, so
// the chunk does not contain its own range.
package index

import (
	"context"
	"testing"

	"github.com/sourcegraph/zoekt"
	"github.com/sourcegraph/zoekt/query"
)

func TestFinding4_NegativeNumContextLinesChunkLosesItsRange(t *testing.T) {
	content := "l1\nl2\nl3 needle\nl4\nl5\n"
	b := testShardBuilder(t, nil, Document{Name: "f.txt", Content: []byte(content)})
	s := searcherForTest(t, b)
	q := &query.Substring{Pattern: "needle", Content: true, CaseSensitive: true}

	res, err := s.Search(context.Background(), q, &zoekt.SearchOptions{ChunkMatches: true, NumContextLines: -1})
	if err != nil {
		t.Fatal(err)
	}
	if len(res.Files) != 1 || len(res.Files[0].ChunkMatches) != 1 {
		t.Fatalf("want one file with one chunk, got %+v", res.Files)
	}
	cm := res.Files[0].ChunkMatches[0]
	start := cm.ContentStart.ByteOffset
	end := start + uint32(len(cm.Content))
	for _, r := range cm.Ranges {
		if r.Start.ByteOffset < start || r.End.ByteOffset > end {
			t.Errorf("chunk starting at %+v with Content=%q does not contain its range [%d,%d) (line %d)",
				cm.ContentStart, cm.Content, r.Start.ByteOffset, r.End.ByteOffset, r.Start.LineNumber)
		}
	}
}
