package index

// HuntB finding 4 (C12): Builder.Finish first renames all new shards into place
// and only afterwards removes the superseded shard files and metadata sidecars.
// An indexer killed between the two phases leaves a mixture of the new and the
// old index on disk:
//
//   (a) new index has fewer shards than the old one: the new shard 0 sits next
//       to the old shards 1..n. Options.IndexState only looks at shard 0, so the
//       next incremental run reports "equal" and the mixture is permanent.
//   (b) full build over a delta-built index: the new shard 0 is paired with the
//       stale ".meta" sidecar of the old shard 0 (old branch versions and file
//       tombstones, which hide live files of the new shard), next to the old
//       delta shard.
//
// The kill is simulated in-process: Finish logs "removing old shard file: ..."
// immediately before each os.Remove; the test installs a log writer that panics
// on that line, which stops Finish at exactly that filesystem mutation point
// (Finish has no deferred cleanup, so the directory is what a SIGKILL leaves).
//
// Place this file in index/ and run:
//   go test -vet=off -count=1 -run 'TestHuntBKilled' ./index/

import (
	"context"
	"fmt"
	"log"
	"os"
	"path/filepath"
	"reflect"
	"sort"
	"strings"
	"testing"

	"github.com/sourcegraph/zoekt"
	"github.com/sourcegraph/zoekt/query"
)

type huntB4Killed struct{}

type huntB4KillWriter struct{ marker string }

func (w *huntB4KillWriter) Write(p []byte) (int, error) {
	if strings.Contains(string(p), w.marker) {
		panic(huntB4Killed{})
	}
	return len(p), nil
}

// huntB4RunKilled runs fn; the "process" dies the moment it is about to log a
// line containing marker.
func huntB4RunKilled(t *testing.T, marker string, fn func() error) (killed bool, err error) {
	t.Helper()
	prev := log.Writer()
	log.SetOutput(&huntB4KillWriter{marker: marker})
	defer log.SetOutput(prev)
	defer func() {
		if r := recover(); r != nil {
			if _, ok := r.(huntB4Killed); !ok {
				panic(r)
			}
			killed = true
		}
	}()
	return false, fn()
}

// huntB4Visible loads every *.zoekt file of dir the way a searcher does and
// returns the sorted "name=generation" of all documents it can see.
func huntB4Visible(t *testing.T, dir string) []string {
	t.Helper()
	fs, _ := filepath.Glob(filepath.Join(dir, "*.zoekt"))
	var out []string
	for _, fn := range fs {
		f, err := os.Open(fn)
		if err != nil {
			t.Fatal(err)
		}
		inf, err := NewIndexFile(f)
		if err != nil {
			t.Fatal(err)
		}
		s, err := NewSearcher(inf)
		if err != nil {
			inf.Close()
			out = append(out, "UNLOADABLE:"+filepath.Base(fn))
			continue
		}
		res, err := s.Search(context.Background(), &query.Const{Value: true}, &zoekt.SearchOptions{Whole: true})
		if err != nil {
			t.Fatal(err)
		}
		for _, fm := range res.Files {
			out = append(out, fm.FileName+"="+strings.SplitN(string(fm.Content), " ", 2)[0])
		}
		s.Close()
	}
	sort.Strings(out)
	return out
}

func huntB4Options(dir, gen string, shardMax int, delta bool) Options {
	opts := Options{
		IndexDir: dir,
		RepositoryDescription: zoekt.Repository{
			Name: "repo", ID: 7,
			Branches: []zoekt.RepositoryBranch{{Name: "main", Version: gen}},
		},
		ShardMax:     shardMax,
		Parallelism:  1,
		DisableCTags: true,
		IsDelta:      delta,
	}
	opts.SetDefaults()
	return opts
}

func huntB4Build(t *testing.T, opts Options, gen string, files []string, changed []string) error {
	t.Helper()
	b, err := NewBuilder(opts)
	if err != nil {
		t.Fatal(err)
	}
	for _, c := range changed {
		b.MarkFileAsChangedOrRemoved(c)
	}
	for _, f := range files {
		doc := Document{Name: f, Content: []byte(gen + " " + strings.Repeat("A", 100)), Branches: []string{"main"}}
		if err := b.Add(doc); err != nil {
			t.Fatal(err)
		}
	}
	return b.Finish()
}

// (a) the new index has fewer shards than the old one.
func TestHuntBKilledWhileShrinking(t *testing.T) {
	dir := t.TempDir()
	const perDocShards = 75 // every ~100 byte document gets a shard of its own

	if err := huntB4Build(t, huntB4Options(dir, "old", perDocShards, false), "old", []string{"f0", "f1", "f2"}, nil); err != nil {
		t.Fatal(err)
	}
	oldView := huntB4Visible(t, dir)
	newView := []string{"f0=new"}

	newOpts := huntB4Options(dir, "new", perDocShards, false)
	killed, err := huntB4RunKilled(t, "removing old shard file", func() error {
		return huntB4Build(t, newOpts, "new", []string{"f0"}, nil)
	})
	if !killed {
		t.Fatalf("setup: the run was not killed (err=%v)", err)
	}

	got := huntB4Visible(t, dir)
	if !reflect.DeepEqual(got, oldView) && !reflect.DeepEqual(got, newView) {
		t.Errorf("after the kill the searcher sees a mixture:\n got: %q\n old: %q\n new: %q", got, oldView, newView)
	}
	if st, _ := newOpts.IndexState(); st == IndexStateEqual && !reflect.DeepEqual(got, newView) {
		t.Errorf("IndexState for the new build is %q, so the next incremental run keeps the mixture %q", st, got)
	}
}

// (b) a full build replaces an index that consists of a base shard (with a
// ".meta" sidecar written by a delta build) and a delta shard.
func TestHuntBKilledFullBuildOverDeltaIndex(t *testing.T) {
	dir := t.TempDir()
	const oneShard = 1 << 20

	if err := huntB4Build(t, huntB4Options(dir, "v1", oneShard, false), "v1", []string{"f0", "f1"}, nil); err != nil {
		t.Fatal(err)
	}
	// delta build: f0 changed
	if err := huntB4Build(t, huntB4Options(dir, "v2", oneShard, true), "v2", []string{"f0"}, []string{"f0"}); err != nil {
		t.Fatal(err)
	}
	oldView := huntB4Visible(t, dir)
	if want := []string{"f0=v2", "f1=v1"}; !reflect.DeepEqual(oldView, want) {
		t.Fatalf("setup: view after delta build %q, want %q", oldView, want)
	}
	newView := []string{"f0=v3", "f1=v3"}

	killed, err := huntB4RunKilled(t, "removing old shard file", func() error {
		return huntB4Build(t, huntB4Options(dir, "v3", oneShard, false), "v3", []string{"f0", "f1"}, nil)
	})
	if !killed {
		t.Fatalf("setup: the run was not killed (err=%v)", err)
	}

	got := huntB4Visible(t, dir)
	if !reflect.DeepEqual(got, oldView) && !reflect.DeepEqual(got, newView) {
		ents, _ := os.ReadDir(dir)
		var names []string
		for _, e := range ents {
			names = append(names, e.Name())
		}
		t.Errorf("after the kill the searcher sees a mixture:\n got: %q\n old: %q\n new: %q\n dir: %s", got, oldView, newView, fmt.Sprint(names))
	}
}
