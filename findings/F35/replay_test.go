package gitindex

// HuntB finding 1 (C12): an indexing run that FAILS half-way (IndexGitRepo
// returns an error) nevertheless installs what it had buffered so far: the
// previous index is replaced by a truncated one, and its metadata claims the
// new commit, so the next incremental run considers it up to date.
//
// Place this file in gitindex/ and run:
//   go test -vet=off -count=1 -run TestHuntBFailedRunInstallsTruncatedIndex ./gitindex/

import (
	"context"
	"os"
	"os/exec"
	"path/filepath"
	"reflect"
	"sort"
	"strings"
	"testing"

	"github.com/sourcegraph/zoekt"
	"github.com/sourcegraph/zoekt/index"
	"github.com/sourcegraph/zoekt/query"
	"github.com/sourcegraph/zoekt/search"
)

func huntB1Sh(t *testing.T, dir, script string) {
	t.Helper()
	cmd := exec.Command("/bin/sh", "-euc", script)
	cmd.Dir = dir
	cmd.Env = gitTestEnv()
	if out, err := cmd.CombinedOutput(); err != nil {
		t.Fatalf("script failed: %v\n%s\n%s", err, script, out)
	}
}

func huntB1Options(repoDir, indexDir string) Options {
	bo := index.Options{
		IndexDir:              indexDir,
		RepositoryDescription: zoekt.Repository{Name: "repository"},
		DisableCTags:          true,
	}
	bo.SetDefaults()
	return Options{
		RepoDir:      filepath.Join(repoDir, ".git"),
		BuildOptions: bo,
		Branches:     []string{"main"},
	}
}

// huntB1View is what a searcher that loads indexDir sees: "path=content" of every document.
func huntB1View(t *testing.T, indexDir string) []string {
	t.Helper()
	ss, err := search.NewDirectorySearcher(indexDir)
	if err != nil {
		t.Fatal(err)
	}
	defer ss.Close()
	res, err := ss.Search(context.Background(), &query.Const{Value: true}, &zoekt.SearchOptions{Whole: true})
	if err != nil {
		t.Fatal(err)
	}
	var view []string
	for _, f := range res.Files {
		view = append(view, f.FileName+"="+strings.TrimSpace(string(f.Content)))
	}
	sort.Strings(view)
	return view
}

func TestHuntBFailedRunInstallsTruncatedIndex(t *testing.T) {
	repoDir := t.TempDir()
	indexDir := t.TempDir()

	huntB1Sh(t, repoDir, `
git init -q -b main .
for f in a b c d e; do echo "old content of $f" > $f.txt; done
git add -A
git commit -q -m one
`)
	if _, err := IndexGitRepo(huntB1Options(repoDir, indexDir)); err != nil {
		t.Fatal(err)
	}
	oldView := huntB1View(t, indexDir)

	huntB1Sh(t, repoDir, `
for f in a b c d e; do echo "new content of $f" > $f.txt; done
git add -A
git commit -q -m two
`)
	newView := []string{
		"a.txt=new content of a", "b.txt=new content of b", "c.txt=new content of c",
		"d.txt=new content of d", "e.txt=new content of e",
	}

	// The blob of c.txt in the new commit is unreadable (disk corruption): the
	// indexer fails when it gets to c.txt, after it has buffered a.txt and b.txt.
	out, err := exec.Command("git", "-C", repoDir, "rev-parse", "HEAD:c.txt").Output()
	if err != nil {
		t.Fatal(err)
	}
	sha := strings.TrimSpace(string(out))
	obj := filepath.Join(repoDir, ".git", "objects", sha[:2], sha[2:])
	if err := os.Chmod(obj, 0o644); err != nil {
		t.Fatal(err)
	}
	if err := os.WriteFile(obj, []byte("this is not a zlib stream"), 0o644); err != nil {
		t.Fatal(err)
	}

	opts := huntB1Options(repoDir, indexDir)
	_, err = IndexGitRepo(opts)
	if err == nil {
		t.Fatal("setup: expected the indexing run to fail on the corrupt blob")
	}
	t.Logf("IndexGitRepo failed as intended: %v", err)

	got := huntB1View(t, indexDir)
	if !reflect.DeepEqual(got, oldView) && !reflect.DeepEqual(got, newView) {
		t.Errorf("after a FAILED indexing run the searcher sees neither the previous nor the new index:\n got: %q\n old: %q\n new: %q", got, oldView, newView)
	}

	// The truncated index is also self-perpetuating: it records main@<new commit>,
	// so an incremental run believes nothing is left to do.
	head, _ := exec.Command("git", "-C", repoDir, "rev-parse", "HEAD").Output()
	opts.BuildOptions.RepositoryDescription.Branches = []zoekt.RepositoryBranch{{Name: "main", Version: strings.TrimSpace(string(head))}}
	opts.BuildOptions.RepositoryDescription.Source = opts.RepoDir
	if st, _ := opts.BuildOptions.IndexState(); st == index.IndexStateEqual && !reflect.DeepEqual(got, newView) {
		t.Errorf("IndexState reports %q for the new commit although the index only holds %q", st, got)
	}
}
