package main

// Finding 3 (C35): 'zoekt-merge-index merge' reports success, deletes every
// input shard, but the compound shard does not contain the repositories whose
// shard has no documents (an empty repository). Those repositories vanish
// from the index.
//
// Place in cmd/zoekt-merge-index/ and run:
//   go test -vet=off -count=1 -run TestHuntG3 ./cmd/zoekt-merge-index/

import (
	"os"
	"path/filepath"
	"sort"
	"testing"

	"github.com/sourcegraph/zoekt"
	"github.com/sourcegraph/zoekt/index"
)

func huntG3BuildShard(t *testing.T, dir, name string, id uint32, files map[string]string) string {
	t.Helper()
	opts := index.Options{
		IndexDir:              dir,
		RepositoryDescription: zoekt.Repository{Name: name, ID: id},
		DisableCTags:          true,
	}
	opts.SetDefaults()
	b, err := index.NewBuilder(opts)
	if err != nil {
		t.Fatal(err)
	}
	for fn, content := range files {
		if err := b.AddFile(fn, []byte(content)); err != nil {
			t.Fatal(err)
		}
	}
	if err := b.Finish(); err != nil {
		t.Fatal(err)
	}
	shards := opts.FindAllShards()
	if len(shards) != 1 {
		t.Fatalf("repository %q: got shards %v, want exactly 1", name, shards)
	}
	return shards[0]
}

func huntG3AliveRepos(t *testing.T, dir string) map[string][]string {
	t.Helper()
	shards, err := filepath.Glob(filepath.Join(dir, "*.zoekt"))
	if err != nil {
		t.Fatal(err)
	}
	visible := map[string][]string{}
	for _, s := range shards {
		repos, _, err := index.ReadMetadataPathAlive(s)
		if err != nil {
			t.Fatalf("read %s: %v", s, err)
		}
		for _, r := range repos {
			visible[r.Name] = append(visible[r.Name], filepath.Base(s))
		}
	}
	return visible
}

func TestHuntG3MergeDropsEmptyRepository(t *testing.T) {
	dir := t.TempDir()
	full := huntG3BuildShard(t, dir, "full", 1, map[string]string{"main.go": "package main\n"})
	empty := huntG3BuildShard(t, dir, "empty", 2, nil) // a repository without files still gets a shard

	before := huntG3AliveRepos(t, dir)
	if len(before) != 2 {
		t.Fatalf("setup: want repositories full and empty visible, got %v", before)
	}

	compound, err := merge(dir, []string{full, empty})
	if err != nil {
		t.Fatalf("merge failed (that would be fine for the property, but it is not what happens): %v", err)
	}

	// merge reported success: every input shard must be gone ...
	for _, in := range []string{full, empty} {
		if _, err := os.Stat(in); !os.IsNotExist(err) {
			t.Errorf("input shard %s still exists after successful merge (err=%v)", in, err)
		}
	}

	// ... and the compound shard must contain every input repository.
	repos, _, err := index.ReadMetadataPathAlive(compound)
	if err != nil {
		t.Fatal(err)
	}
	var got []string
	for _, r := range repos {
		got = append(got, r.Name)
	}
	sort.Strings(got)
	if len(got) != 2 || got[0] != "empty" || got[1] != "full" {
		t.Errorf("merge reported success (%s) but the compound shard contains repositories %v, want [empty full]; visible repositories in the index directory are now %v",
			filepath.Base(compound), got, huntG3AliveRepos(t, dir))
	}
}
