package search

import (
	"context"
	"runtime"
	"slices"
	"testing"
	"time"

	"github.com/sourcegraph/zoekt"
	"github.com/sourcegraph/zoekt/index"
	"github.com/sourcegraph/zoekt/query"
)

// C22: with a display limit a search must return the beginning of its
// unlimited ranked result. collectSender.Send re-ranks AND truncates the
// aggregate after every chunk (search/aggregate.go:52-56). index.SortFiles is
// not a pure sort: boostNovelExtension moves one file with a "novel" extension
// to position 3, and which file that is depends on the two top files of the
// slice it is given. A boost decided on a partial aggregate therefore evicts a
// file for good, even though the boost is no longer valid (or a different file
// has to be boosted) once a later shard changes the top two files.

func huntKNames(files []zoekt.FileMatch) []string {
	var names []string
	for _, f := range files {
		names = append(names, f.Repository+"/"+f.FileName)
	}
	return names
}

func huntKSearcher(t *testing.T) *shardedSearcher {
	// Shard "x" sorts before shard "y" (equal priority, ordered by repo name),
	// and with a single worker the shards are searched, and their results
	// aggregated, strictly in that order. This only makes the arrival order
	// deterministic; with more workers the same happens whenever x answers first.
	x := testShardBuilder(t, &zoekt.Repository{ID: 1, Name: "x"},
		index.Document{Name: "a.go", Content: []byte("needle")},
		index.Document{Name: "b.go", Content: []byte("needle")},
		index.Document{Name: "c.go", Content: []byte("needle")},
		index.Document{Name: "n.md", Content: []byte("needle")},
		index.Document{Name: "f.txt", Content: []byte("needle")},
	)
	// The file name matches as well, so this file outranks everything in x.
	y := testShardBuilder(t, &zoekt.Repository{ID: 2, Name: "y"},
		index.Document{Name: "needle.md", Content: []byte("needle")},
	)
	ss := newShardedSearcher(1)
	ss.replace(map[string]zoekt.Searcher{"x": searcherForTest(t, x)})
	ss.replace(map[string]zoekt.Searcher{"y": searcherForTest(t, y)})
	return ss
}

func TestHuntK1_SearchDocLimitIsNotPrefixOfRanking(t *testing.T) {
	defer runtime.GOMAXPROCS(runtime.GOMAXPROCS(1))
	ss := huntKSearcher(t)
	q := &query.Substring{Pattern: "needle"}

	full, err := ss.Search(context.Background(), q, &zoekt.SearchOptions{})
	if err != nil {
		t.Fatal(err)
	}
	if len(full.Files) != 6 {
		t.Fatalf("unlimited search: got %d files, want 6", len(full.Files))
	}
	want := huntKNames(full.Files)[:3]

	limited, err := ss.Search(context.Background(), q, &zoekt.SearchOptions{MaxDocDisplayCount: 3})
	if err != nil {
		t.Fatal(err)
	}
	if got := huntKNames(limited.Files); !slices.Equal(got, want) {
		t.Errorf("Search(MaxDocDisplayCount=3) = %v\nwant the first 3 files of the unlimited ranking %v", got, huntKNames(full.Files))
	}
}

func TestHuntK1_StreamFlushDocLimitIsNotPrefixOfRanking(t *testing.T) {
	defer runtime.GOMAXPROCS(runtime.GOMAXPROCS(1))
	ss := huntKSearcher(t)
	q := &query.Substring{Pattern: "needle"}

	stream := func(opts zoekt.SearchOptions) []zoekt.FileMatch {
		var files []zoekt.FileMatch
		err := ss.StreamSearch(context.Background(), q, &opts, zoekt.SenderFunc(func(r *zoekt.SearchResult) {
			files = append(files, r.Files...)
		}))
		if err != nil {
			t.Fatal(err)
		}
		return files
	}

	// FlushWallTime is far away: everything is ranked together in the final flush.
	full := stream(zoekt.SearchOptions{FlushWallTime: time.Minute})
	if len(full) != 6 {
		t.Fatalf("unlimited stream: got %d files, want 6", len(full))
	}
	want := huntKNames(full)[:3]

	limited := stream(zoekt.SearchOptions{FlushWallTime: time.Minute, MaxDocDisplayCount: 3})
	if got := huntKNames(limited); !slices.Equal(got, want) {
		t.Errorf("StreamSearch(MaxDocDisplayCount=3) = %v\nwant the first 3 files of the unlimited ranking %v", got, huntKNames(full))
	}
}

// The same on the aggregation layer alone, independent of scheduling, and for
// a match display limit: the file evicted by a premature boost (c.go) is lost,
// and the file that was boosted and cut (f.txt) is returned in its place.
func TestHuntK1_CollectSenderMatchLimit(t *testing.T) {
	chunk1 := func() *zoekt.SearchResult {
		return &zoekt.SearchResult{Files: []zoekt.FileMatch{
			collectTestFile("a.go", 100, 1),
			collectTestFile("b.go", 99, 1),
			collectTestFile("c.go", 98, 1),
			collectTestFile("f.txt", 97, 3),
		}}
	}
	chunk2 := func() *zoekt.SearchResult {
		return &zoekt.SearchResult{Files: []zoekt.FileMatch{
			collectTestFile("m.txt", 101, 1),
		}}
	}

	unlimited := newCollectSender(&zoekt.SearchOptions{})
	unlimited.Send(chunk1())
	unlimited.Send(chunk2())
	full, _ := unlimited.Done()
	// m.txt a.go b.go c.go f.txt: .txt is not novel any more.
	want := collectTestFileNames(full.Files)[:4]

	limitedSender := newCollectSender(&zoekt.SearchOptions{MaxMatchDisplayCount: 4})
	limitedSender.Send(chunk1())
	limitedSender.Send(chunk2())
	limited, _ := limitedSender.Done()

	if got := collectTestFileNames(limited.Files); !slices.Equal(got, want) {
		t.Errorf("MaxMatchDisplayCount=4: got %v, want the leading files of the unlimited ranking %v", got, collectTestFileNames(full.Files))
	}
}
