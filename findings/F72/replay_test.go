// Copy to: query/   (package query)
//
// C24: "The gRPC search service answers every well-formed wire request,
// including ones with unset or partially set fields, with a response or an
// error status and never crashes the server."
//
// QFromProto is the first thing Search, StreamSearch and List do with a
// request. Every node converter reads its message through the nil-safe
// generated getters, except RawConfigFromProto, which dereferences the message
// directly (`range p.Flags`). A request whose query selects the raw_config
// alternative of the oneof but leaves the RawConfig message itself unset
// therefore panics inside the handler (grpc-go does not recover handler
// panics, so the process dies) instead of being answered.
//
// Note: a request decoded from bytes by protobuf-go always materialises the
// selected oneof message, so this needs a request handed over as a Go value
// (in-process transport, tests, another codec); all sibling converters
// (RegexpFromProto(nil), SymbolFromProto(nil), ...) tolerate exactly this.
package query

import (
	"testing"

	webserverv1 "github.com/sourcegraph/zoekt/grpc/protos/zoekt/webserver/v1"
)

func TestC24Finding24_UnsetRawConfigDoesNotPanic(t *testing.T) {
	req := &webserverv1.SearchRequest{
		Query: &webserverv1.Q{Query: &webserverv1.Q_RawConfig{ /* RawConfig unset */ }},
	}

	defer func() {
		if r := recover(); r != nil {
			t.Fatalf("QFromProto panicked on a query with an unset raw_config message (want a query or an error): %v", r)
		}
	}()

	q, err := QFromProto(req.GetQuery())
	if err == nil && q == nil {
		t.Fatalf("QFromProto returned neither a query nor an error")
	}

}
