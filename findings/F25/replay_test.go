package search

import (
	"context"
	"testing"

	"github.com/sourcegraph/zoekt"
	"github.com/sourcegraph/zoekt/index"
	"github.com/sourcegraph/zoekt/query"
)

// F25: a branches-repos filter whose (single) branch name is empty selects no
// document in a shard (no branch is named ""). The sharded searcher rewrites it
// to Branch{Pattern: "", Exact: true}, which query.Simplify folds to the
// constant TRUE: the sharded search returns every matching file of the selected
// repositories where the per-shard search with the original query returns none.
func TestVerifReplayF25(t *testing.T) {
	repo := &zoekt.Repository{ID: 7, Name: "repo", Branches: []zoekt.RepositoryBranch{{Name: "main", Version: "v"}}}
	b := testShardBuilder(t, repo,
		index.Document{Name: "a.txt", Content: []byte("needle one"), Branches: []string{"main"}},
		index.Document{Name: "b.txt", Content: []byte("needle two"), Branches: []string{"main"}})
	q := query.NewAnd(query.NewSingleBranchesRepos("", 7), &query.Substring{Pattern: "needle"})

	shard := searcherForTest(t, b)
	direct, err := shard.Search(context.Background(), q, &zoekt.SearchOptions{})
	if err != nil {
		t.Fatal(err)
	}
	ss := newShardedSearcher(1)
	ss.replace(map[string]zoekt.Searcher{"r1": searcherForTest(t, b)})
	sharded, err := ss.Search(context.Background(), q, &zoekt.SearchOptions{})
	if err != nil {
		t.Fatal(err)
	}
	if len(direct.Files) != len(sharded.Files) {
		t.Fatalf("per-shard search with the original query: %d files; sharded search: %d files", len(direct.Files), len(sharded.Files))
	}
}

// The same fold without the sharded searcher: Simplify turns an exact branch
// filter for the branch named "" (matches nothing) into TRUE (matches all).
func TestVerifReplayF25Simplify(t *testing.T) {
	repo := &zoekt.Repository{ID: 7, Name: "repo", Branches: []zoekt.RepositoryBranch{{Name: "main", Version: "v"}}}
	b := testShardBuilder(t, repo,
		index.Document{Name: "a.txt", Content: []byte("needle one"), Branches: []string{"main"}})
	shard := searcherForTest(t, b)
	// not folded: exact match of a branch name that does not exist
	none, err := shard.Search(context.Background(), query.NewAnd(&query.Branch{Pattern: "nosuch", Exact: true}, &query.Substring{Pattern: "needle"}), &zoekt.SearchOptions{})
	if err != nil {
		t.Fatal(err)
	}
	empty, err := shard.Search(context.Background(), query.NewAnd(&query.Branch{Pattern: "", Exact: true}, &query.Substring{Pattern: "needle"}), &zoekt.SearchOptions{})
	if err != nil {
		t.Fatal(err)
	}
	if len(none.Files) != 0 || len(empty.Files) != 0 {
		t.Fatalf("exact branch \"nosuch\": %d files, exact branch \"\": %d files (no branch has either name)", len(none.Files), len(empty.Files))
	}
}
