package gitindex

import (
	"context"
	"os"
	"os/exec"
	"path/filepath"
	"reflect"
	"sort"
	"strings"
	"testing"
	"time"

	"github.com/sourcegraph/zoekt"
	"github.com/sourcegraph/zoekt/index"
	"github.com/sourcegraph/zoekt/query"
	"github.com/sourcegraph/zoekt/search"
)

// Property C14: indexing produces one document per (path, content) pair of
// the branch tree, named by its path.
//
// Git allows control characters in file names (a TAB here; macOS's "Icon\r"
// files are a common real-world case).
func TestHuntE_ControlCharacterInFileName(t *testing.T) {
	dir := t.TempDir()
	repoDir := filepath.Join(dir, "repo")
	if err := os.MkdirAll(repoDir, 0o755); err != nil {
		t.Fatal(err)
	}
	script := `
git init -q -b master .
git config user.email "you@example.com"
git config user.name "Your Name"
mkdir docs "odd	dir"
echo "plain needle" > docs/plain.txt
printf 'tabbed needle\n' > "docs/with	tab.txt"
echo "nested needle" > "odd	dir/nested.txt"
git add -A
git commit -q -m msg
git fsck --strict
`
	cmd := exec.Command("/bin/sh", "-euc", script)
	cmd.Dir = repoDir
	cmd.Env = gitTestEnv()
	if out, err := cmd.CombinedOutput(); err != nil {
		t.Fatalf("script: %v\n%s", err, out)
	}

	indexDir := t.TempDir()
	opts := Options{
		RepoDir: repoDir,
		BuildOptions: index.Options{
			IndexDir:              indexDir,
			DisableCTags:          true,
			RepositoryDescription: zoekt.Repository{Name: "repo"},
		},
		Branches: []string{"master"},
	}
	if _, err := IndexGitRepo(opts); err != nil {
		t.Fatalf("IndexGitRepo: %v", err)
	}

	searcher, err := search.NewDirectorySearcher(indexDir)
	if err != nil {
		t.Fatal(err)
	}
	defer searcher.Close()
	res, err := searcher.Search(context.Background(), &query.Substring{Pattern: "needle", Content: true}, &zoekt.SearchOptions{})
	if err != nil {
		t.Fatal(err)
	}
	var got []string
	for _, f := range res.Files {
		got = append(got, f.FileName)
	}
	sort.Strings(got)
	want := []string{"docs/plain.txt", "docs/with\ttab.txt", "odd\tdir/nested.txt"}
	if !reflect.DeepEqual(got, want) {
		t.Errorf("indexed documents containing 'needle':\n got  %q\n want %q", got, want)
	}
}

// Same root cause, second consequence: the walker reports "maximum tree depth
// exceeded" on every call once a directory chain is deeper than 1024 levels;
// CollectFiles ignores that error too and never terminates.
func TestHuntE_DeepTreeDoesNotHang(t *testing.T) {
	dir := t.TempDir()
	repoDir := filepath.Join(dir, "repo")
	if err := os.MkdirAll(repoDir, 0o755); err != nil {
		t.Fatal(err)
	}
	deep := strings.Repeat("d/", 1030)
	script := `
git init -q -b master .
git config user.email "you@example.com"
git config user.name "Your Name"
mkdir -p ` + deep + `
echo "deep needle" > ` + deep + `f.txt
echo "top" > top.txt
git add -A
git commit -q -m msg
`
	cmd := exec.Command("/bin/sh", "-euc", script)
	cmd.Dir = repoDir
	cmd.Env = gitTestEnv()
	if out, err := cmd.CombinedOutput(); err != nil {
		t.Fatalf("script: %v\n%s", err, out)
	}

	indexDir := t.TempDir()
	opts := Options{
		RepoDir: repoDir,
		BuildOptions: index.Options{
			IndexDir:              indexDir,
			DisableCTags:          true,
			RepositoryDescription: zoekt.Repository{Name: "repo"},
		},
		Branches: []string{"master"},
	}
	done := make(chan error, 1)
	go func() {
		_, err := IndexGitRepo(opts)
		done <- err
	}()
	select {
	case err := <-done:
		t.Logf("IndexGitRepo returned: %v", err)
	case <-time.After(20 * time.Second):
		t.Fatalf("IndexGitRepo did not return within 20s on a repository with a 1030-level deep directory")
	}
}
