package index

import (
	"testing"
	"time"
)

// F5: the search-time iterator over a delta/varint posting list trusts
// binary.Uvarint: an overlong varint (n < 0) makes it slice with a negative
// index, a truncated one (n == 0) makes next() spin forever without consuming
// a byte - a corrupt shard crashes or hangs every search that touches the
// posting list.
func TestVerifReplayF5Panic(t *testing.T) {
	defer func() {
		if r := recover(); r != nil {
			t.Fatalf("newCompressedPostingIterator panicked on an overlong varint: %v", r)
		}
	}()
	newCompressedPostingIterator([]byte{0xff, 0xff, 0xff, 0xff, 0xff, 0xff, 0xff, 0xff, 0xff, 0xff, 0x02}, 0)
}

func TestVerifReplayF5Hang(t *testing.T) {
	it := newCompressedPostingIterator([]byte{0x01, 0x80}, 0)
	done := make(chan struct{})
	go func() {
		it.next(5)
		close(done)
	}()
	select {
	case <-done:
	case <-time.After(2 * time.Second):
		t.Fatal("compressedPostingIterator.next does not return on a truncated varint")
	}
}
