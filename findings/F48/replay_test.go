package index

// Finding 3 (C01): symbol queries whose expression is a regular expression are
// evaluated with the wrong regular expression, or not at all.
//
// newMatchTree(*query.Symbol) builds the match tree of the inner regexp and
// then takes "the" regexpMatchTree out of it by walking the tree and keeping
// the LAST regexpMatchTree it sees. That tree can contain
//   - no regexpMatchTree at all, when the regexp is equivalent to a boolean
//     combination of substrings (foo|bar): the search fails with
//     "found *index.orMatchTree inside query.Symbol";
//   - a second regexpMatchTree inside the trigram pre-filter, when the regexp
//     contains a literal of >= 3 bytes but < 3 runes (two CJK characters, one
//     emoji, "éa"): regexpToMatchTreeRecursive measures the literal in bytes
//     while newSubstringMatchTree measures it in runes and falls back to a
//     regexpMatchTree for just that literal. The symbol matcher then uses the
//     literal instead of the whole expression.
//
// Place in: index/   Run: go test -vet=off -count=1 -run TestHuntDSymbolRegexp ./index/

import (
	"context"
	"regexp"
	"regexp/syntax"
	"sort"
	"testing"

	"github.com/sourcegraph/zoekt"
	"github.com/sourcegraph/zoekt/query"
)

type huntD3Doc struct {
	name    string
	content string
	symbols []string // each must occur exactly once in content
}

func TestHuntDSymbolRegexp(t *testing.T) {
	docs := []huntD3Doc{
		{"exact.txt", "var 中文 = 1", []string{"中文"}},
		{"longer.txt", "var x中文y = 1", []string{"x中文y"}},
		{"foo.txt", "func foo() {}", []string{"foo"}},
		{"bar.txt", "func bar() {}", []string{"bar"}},
		{"other.txt", "func quux() {} // foo bar 中文", []string{"quux"}},
	}

	b := testShardBuilder(t, nil)
	for _, d := range docs {
		doc := Document{Name: d.name, Content: []byte(d.content)}
		for _, sym := range d.symbols {
			off := uint32(indexOf(d.content, sym))
			doc.Symbols = append(doc.Symbols, DocumentSection{Start: off, End: off + uint32(len(sym))})
		}
		if err := b.Add(doc); err != nil {
			t.Fatal(err)
		}
	}
	s := searcherForTest(t, b)

	for _, pattern := range []string{
		`^中文$`,    // over-reports: every symbol that merely contains 中文
		`^foo$|中`, // under-reports: the symbol foo is lost
		`foo|bar`, // fails
	} {
		// Reference: a document matches if one of its symbols matches.
		ref := regexp.MustCompile("(?m)" + pattern)
		want := []string{}
		for _, d := range docs {
			for _, sym := range d.symbols {
				if ref.MatchString(sym) {
					want = append(want, d.name)
					break
				}
			}
		}
		sort.Strings(want)

		re, err := syntax.Parse(pattern, syntax.ClassNL|syntax.PerlX|syntax.UnicodeGroups)
		if err != nil {
			t.Fatal(err)
		}
		q := &query.Symbol{Expr: &query.Regexp{Regexp: re, CaseSensitive: true}}

		res, err := s.Search(context.Background(), q, &zoekt.SearchOptions{})
		if err != nil {
			t.Errorf("query %s: Search failed: %v (want documents %v)", q, err, want)
			continue
		}
		got := []string{}
		for _, f := range res.Files {
			got = append(got, f.FileName)
		}
		sort.Strings(got)
		if len(got) != len(want) {
			t.Errorf("query %s:\n got  %v\n want %v", q, got, want)
			continue
		}
		for i := range got {
			if got[i] != want[i] {
				t.Errorf("query %s:\n got  %v\n want %v", q, got, want)
				break
			}
		}
	}

	// The parser produces exactly these trees.
	for _, qs := range []string{`sym:foo|bar`} {
		q, err := query.Parse(qs)
		if err != nil {
			t.Fatal(err)
		}
		if _, err := s.Search(context.Background(), q, &zoekt.SearchOptions{}); err != nil {
			t.Errorf("query string %q (parsed as %s): Search failed: %v", qs, q, err)
		}
	}
}

func indexOf(s, sub string) int {
	for i := 0; i+len(sub) <= len(s); i++ {
		if s[i:i+len(sub)] == sub {
			return i
		}
	}
	panic("symbol not in content")
}
