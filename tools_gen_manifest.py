#!/usr/bin/env python3
"""Generates MANIFEST.json from props/*.json + manifest_meta.json (maintainer tool)."""
import json, os, glob
vd = os.path.dirname(os.path.abspath(__file__))
meta = json.load(open(os.path.join(vd, 'manifest_meta.json')))
import subprocess
def commits(pattern):
    out = subprocess.run(['git', '-C', '/repo', 'log', '--reverse', '--format=%h', '--grep', pattern], capture_output=True, text=True).stdout.split()
    return out
meta['source_commits'] = commits('^verif hook')
meta['fix_commits'] = commits('^fix:')
props = [json.loads(l) for l in open(os.path.join(vd, 'properties.jsonl'))]
checks = []
na = []
for p in props:
    pid = p['id']
    m = meta['claimed'].get(pid)
    if m and os.path.exists(os.path.join(vd, 'props', pid + '.json')):
        checks.append({
            "property_id": pid,
            "quick_cmd": "bin/check %s quick" % pid,
            "thorough_cmd": "bin/check %s thorough" % pid,
            "evidence_file": "/verif/evidence/%s.json" % pid,
            "replay_cmd_template": "cat {path}",
            "engine": "govc",
            "level_claimed": {"category": m.get("category", "proof"), "text": m["text"], "design_ref": m.get("design_ref", "DESIGN.md section 3, " + pid)},
            "level_note": m["note"],
            "technique": m.get("technique", "contract-based deductive verification: WP over go/ssa of the real functions, contracts in guarded comment files, obligations discharged by z3/cvc5"),
        })
    else:
        na.append({"property_id": pid, "reason": meta['not_applicable'].get(pid, "contracts designed (DESIGN.md section 3) but not built yet; not claimed on the strength of anything else")})
man = {
    "version": 1,
    "setup_cmd": "bin/setup",
    "hooks": {
        "guard": "verif",
        "enable": "go build -tags verif (the contract files zz_verif_contracts.go are comment-only and compiled only with this tag; govc loads /repo with -tags verif)",
        "baseline_off_cmd": meta["baseline_off_cmd"],
        "source_commits": meta["source_commits"],
        "add_only": True,
    },
    "engines": [{"name": "govc", "path": "/verif/govc", "serves_properties": [c["property_id"] for c in checks],
                 "kind_free_text": "home-built deductive verifier for Go: verification-condition generator over go/ssa (x/tools v0.29.0) with contracts as //@ comments in build-tag-guarded files inside /repo; obligations discharged by z3 4.8.12 / z3 5.1.0 / cvc5 1.0; structural frame obligations by its own SSA analyses"}],
    "checks": checks,
    "not_applicable": na,
    "notes": meta.get("notes", "") + " Unguarded repairs of genuine defects (fix: commits in /repo): " + ", ".join(meta['fix_commits']) + ".",
}
json.dump(man, open(os.path.join(vd, 'MANIFEST.json'), 'w'), indent=1)
print("checks:", len(checks), "not_applicable:", len(na))
