#!/usr/bin/env python3
"""usage: tools_claim.py <id> <text> <note> [category]  -- adds/updates a claimed entry in manifest_meta.json and regenerates MANIFEST.json"""
import json, sys, os, subprocess
vd = os.path.dirname(os.path.abspath(__file__))
p = os.path.join(vd, 'manifest_meta.json')
m = json.load(open(p))
e = {"text": sys.argv[2], "note": sys.argv[3]}
if len(sys.argv) > 4:
    e["category"] = sys.argv[4]
m['claimed'][sys.argv[1]] = e
json.dump(m, open(p, 'w'), indent=1)
subprocess.run([sys.executable, os.path.join(vd, 'tools_gen_manifest.py')], check=True)
