package main

import (
	"flag"
	"fmt"
	"os"
	"strings"

	"govc/vc"
)

func main() {
	if len(os.Args) < 2 {
		fmt.Fprintln(os.Stderr, "usage: govc verify|check ...")
		os.Exit(2)
	}
	switch os.Args[1] {
	case "verify":
		cmdVerify(os.Args[2:])
	case "check":
		cmdCheck(os.Args[2:])
	case "structural":
		// govc structural <pkgs> <check>...   (debugging aid)
		eng, err := vc.Load("/repo", strings.Split(os.Args[2], ","))
		if err != nil {
			fmt.Fprintln(os.Stderr, "load:", err)
			os.Exit(2)
		}
		for _, r := range runStructural(eng, os.Args[3:]) {
			fmt.Printf("  %-5v %s   [%s] %s\n", r.OK, r.Name, r.Desc, r.Detail)
		}
	default:
		fmt.Fprintln(os.Stderr, "unknown command", os.Args[1])
		os.Exit(2)
	}
}

func cmdVerify(args []string) {
	fs := flag.NewFlagSet("verify", flag.ExitOnError)
	repo := fs.String("repo", "/repo", "repository root")
	pkgs := fs.String("pkgs", "./index", "comma-separated package patterns")
	timeout := fs.Int("timeout", 20, "per-obligation solver timeout (s)")
	dump := fs.String("dump", "", "write failing queries to this directory")
	ssaDump := fs.Bool("ssa", false, "print SSA")
	fs.Parse(args)
	eng, err := vc.Load(*repo, strings.Split(*pkgs, ","))
	if err != nil {
		fmt.Fprintln(os.Stderr, "load:", err)
		os.Exit(2)
	}
	bad := 0
	for _, name := range fs.Args() {
		fn := eng.Func(strings.SplitN(name, "#", 2)[0])
		if strings.HasPrefix(name, "lemma:") {
			v, err := eng.VerifyLemma(strings.TrimPrefix(name, "lemma:"))
			if err != nil {
				fmt.Println("lemma:", err)
				bad++
				continue
			}
			for _, u := range v.Unsupp {
				fmt.Println("  UNSUPPORTED:", u)
			}
			for _, r := range vc.DischargeAll(v.Obls, *timeout, 12, false) {
				mark := "ok  "
				if !r.OK {
					mark = "FAIL"
					bad++
					if *dump != "" {
						os.MkdirAll(*dump, 0o755)
						os.WriteFile(fmt.Sprintf("%s/lemma_%s.smt2", *dump, strings.TrimPrefix(name, "lemma:")), []byte(r.Obl.Query()), 0o644)
					}
				}
				fmt.Printf("  %s %-8s %-7s %5.2fs %s   %s\n", mark, r.Status, r.Solver, r.Seconds, r.Obl.Name, r.Obl.Desc)
			}
			continue
		}
		if fn == nil {
			fmt.Println("not found:", name, "candidates:", eng.FuncNames(name[strings.LastIndex(name, ".")+1:]))
			bad++
			continue
		}
		if *ssaDump {
			fn.WriteTo(os.Stdout)
		}
		for _, r := range guardClauseResults(eng, strings.SplitN(name, "#", 2)[0]) {
			mark := "ok  "
			if !r.OK {
				mark = "FAIL"
				bad++
			}
			fmt.Printf("  %s %-8s %-7s       %s   [%s] %s\n", mark, "frames", "frames", r.Name, r.Desc, r.Detail)
		}
		v, err := eng.Verify(name)
		if err != nil {
			fmt.Println("verify:", err)
			bad++
			continue
		}
		for _, u := range v.Unsupp {
			fmt.Println("  UNSUPPORTED:", u)
		}
		for _, n := range v.Notes {
			fmt.Println("  note:", n)
		}
		res := vc.DischargeAll(v.Obls, *timeout, 12, false)
		for i, r := range res {
			mark := "ok  "
			if !r.OK {
				mark = "FAIL"
				bad++
				if *dump != "" {
					os.MkdirAll(*dump, 0o755)
					os.WriteFile(fmt.Sprintf("%s/fail%03d.smt2", *dump, i), []byte(r.Obl.Query()), 0o644)
				}
			}
			fmt.Printf("  %s %-8s %-7s %5.2fs %s   [%s] %s\n", mark, r.Status, r.Solver, r.Seconds, r.Obl.Name, r.Obl.Pos, r.Obl.Desc)
			if !r.OK && r.Status != "sat" && r.Status != "unsat" {
				fmt.Println("      ", strings.ReplaceAll(strings.TrimSpace(r.Output), "\n", "\n       "))
			}
		}
	}
	if bad > 0 {
		os.Exit(1)
	}
}
