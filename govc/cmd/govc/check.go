package main

import (
	"os/exec"
	"context"
	"encoding/json"
	"flag"
	"fmt"
	"os"
	"path/filepath"
	"sort"
	"strconv"
	"strings"
	"time"

	"govc/vc"
)

// PropConfig is /verif/props/<id>.json.
type PropConfig struct {
	ID          string   `json:"id"`
	Packages    []string `json:"packages"`
	Functions   []string `json:"functions"`
	Structural  []string `json:"structural"` // names of structural (frames back end) checks
	RoundTrips  []vc.RoundTrip `json:"roundtrips"` // From(To(x)) == x lemmas over two real functions
	Lemmas      []string `json:"lemmas"` // names of //@ lemma declarations in the contract files
	GuardFuncs  []string `json:"guard_functions"` // functions of which only the guard clauses are decided (frames back end, no WP)
	Assumptions []string `json:"assumptions"`
	Unverified  []string `json:"unverified"`
	Note        string   `json:"note"`
}

type Finding struct {
	Property   string `json:"property"`
	Obligation string `json:"obligation"` // exact name or prefix ending in '*'
	What       string `json:"what"`
	Status     string `json:"status"` // open | fixed
	Commit     string `json:"commit,omitempty"`
	// A finding that no obligation of the machinery decides is identified by a
	// reproduction instead: an in-package test (Replay, injected with
	// go test -overlay into package Pkg, run with -run Run) that FAILS while
	// the defect is present. The check runs it on every run: the finding is
	// reported while the test fails and silently dropped once it passes.
	Replay string `json:"replay,omitempty"`
	Pkg    string `json:"pkg,omitempty"`
	Run    string `json:"run,omitempty"`
}

type KnownFindings struct {
	Findings []Finding `json:"findings"`
	Fixed    []string  `json:"fixed"`
}

func verifDir() string {
	if d := os.Getenv("VERIF_DIR"); d != "" {
		return d
	}
	return "/verif"
}

func loadJSON(path string, v interface{}) error {
	b, err := os.ReadFile(path)
	if err != nil {
		return err
	}
	return json.Unmarshal(b, v)
}

func matchFinding(fs []Finding, prop, name string) *Finding {
	for i := range fs {
		f := &fs[i]
		if f.Property != prop || f.Status != "open" {
			continue
		}
		if f.Obligation == name || (strings.HasSuffix(f.Obligation, "*") && strings.HasPrefix(name, strings.TrimSuffix(f.Obligation, "*"))) {
			return f
		}
	}
	return nil
}

type oblRecord struct {
	Name    string  `json:"name"`
	Kind    string  `json:"kind"`
	Status  string  `json:"status"`
	Solver  string  `json:"solver"`
	Seconds float64 `json:"seconds"`
	Desc    string  `json:"desc,omitempty"`
	Pos     string  `json:"pos,omitempty"`
}

func cmdCheck(args []string) {
	fs := flag.NewFlagSet("check", flag.ExitOnError)
	repo := fs.String("repo", "/repo", "repository root")
	prop := fs.String("prop", "", "property id")
	tier := fs.String("tier", "quick", "quick|thorough")
	writeBaseline := fs.Bool("write-baseline", false, "write baseline/<id>.json from this run (maintainer use only)")
	verbose := fs.Bool("v", false, "list every obligation")
	noEvidence := fs.Bool("no-evidence", false, "do not write the evidence file (selftest runs)")
	fs.Parse(args)
	if t := os.Getenv("VERIF_TIER"); t == "quick" || t == "thorough" {
		*tier = t
	}
	seed := 0
	if s := os.Getenv("VERIF_SEED"); s != "" {
		seed, _ = strconv.Atoi(s)
	}
	t0 := time.Now()
	vd := verifDir()
	var cfg PropConfig
	if err := loadJSON(filepath.Join(vd, "props", *prop+".json"), &cfg); err != nil {
		fmt.Fprintln(os.Stderr, "props:", err)
		os.Exit(2)
	}
	var kf KnownFindings
	_ = loadJSON(filepath.Join(vd, "known_findings.json"), &kf)
	var baseline []string
	_ = loadJSON(filepath.Join(vd, "baseline", *prop+".json"), &baseline)
	inBase := map[string]bool{}
	for _, b := range baseline {
		inBase[b] = true
	}
	timeout, agree := 20, false
	if *tier == "thorough" {
		timeout, agree = 60, true
	}
	eng, err := vc.Load(*repo, cfg.Packages)
	if err != nil {
		// The tree does not type-check with -tags verif: nothing can be decided.
		fmt.Fprintln(os.Stderr, "load:", err)
		os.Exit(2)
	}
	var all []*vc.Obligation
	var notes, unsupp, unbound []string
	funcsUnder := []string{}
	for _, name := range cfg.Functions {
		if eng.Func(strings.SplitN(name, "#", 2)[0]) == nil {
			unbound = append(unbound, name)
			continue
		}
		v, err := eng.Verify(name)
		if err != nil {
			unbound = append(unbound, name+": "+err.Error())
			continue
		}
		// a contract clause that no longer binds to the code (renamed local,
		// changed shape) means the function cannot be decided: it is reported as
		// such, never as a violation and never as discharged
		specBroken := false
		for _, u := range v.Unsupp {
			if strings.HasPrefix(u, "spec:") {
				specBroken = true
			}
		}
		if specBroken {
			unbound = append(unbound, name+": contract does not bind to the current code ("+v.Unsupp[0]+")")
			continue
		}
		funcsUnder = append(funcsUnder, name)
		all = append(all, v.Obls...)
		for _, n := range v.Notes {
			notes = append(notes, n)
		}
		for _, u := range v.Unsupp {
			unsupp = append(unsupp, name+": "+u)
		}
	}
	for _, rt := range cfg.RoundTrips {
		v, err := eng.VerifyRoundTrip(rt)
		if err != nil {
			unbound = append(unbound, "roundtrip "+rt.Name+": "+err.Error())
			continue
		}
		if len(v.Unsupp) > 0 {
			unbound = append(unbound, "roundtrip "+rt.Name+": "+v.Unsupp[0])
			continue
		}
		funcsUnder = append(funcsUnder, "roundtrip "+rt.From+" o "+rt.To)
		all = append(all, v.Obls...)
		notes = append(notes, v.Notes...)
	}
	for _, ln := range cfg.Lemmas {
		v, err := eng.VerifyLemma(ln)
		if err != nil {
			unbound = append(unbound, "lemma "+ln+": "+err.Error())
			continue
		}
		if len(v.Unsupp) > 0 {
			unbound = append(unbound, "lemma "+ln+": "+v.Unsupp[0])
			continue
		}
		funcsUnder = append(funcsUnder, "lemma "+ln)
		all = append(all, v.Obls...)
		notes = append(notes, v.Notes...)
	}
	// structural (frames back end) obligations
	sres := runStructural(eng, cfg.Structural)
	// guard clauses written in the contracts of the functions under contract
	for _, name := range cfg.Functions {
		sres = append(sres, guardClauseResults(eng, strings.SplitN(name, "#", 2)[0])...)
	}
	for _, name := range cfg.GuardFuncs {
		rs := guardClauseResults(eng, name)
		if len(rs) == 0 {
			unbound = append(unbound, name+": no guard clause found in the contract files")
			continue
		}
		funcsUnder = append(funcsUnder, name+" (guard clauses only)")
		sres = append(sres, rs...)
	}
	for i := range sres {
		if sres[i].Status == "" {
			if sres[i].OK {
				sres[i].Status = "holds"
			} else {
				sres[i].Status = "fails"
			}
		}
	}
	results := vc.DischargeAll(all, timeout, 14, agree)
	// an obligation that ran out of time under load is retried alone with three
	// times the budget before it is reported (a timeout is not a refutation)
	var retry []*vc.Obligation
	var retryIdx []int
	for i, r := range results {
		if !r.OK && !r.Obl.ExpectSat && r.Status != "sat" && matchFinding(kf.Findings, *prop, r.Obl.Name) == nil {
			retry = append(retry, r.Obl)
			retryIdx = append(retryIdx, i)
		}
	}
	if len(retry) > 0 && len(retry) <= 24 {
		rr := vc.DischargeAll(retry, timeout*3, 4, false)
		for k, r := range rr {
			if r.OK {
				r.Seconds += results[retryIdx[k]].Seconds
				results[retryIdx[k]] = r
			}
		}
	}
	type fail struct {
		name, status, output, kind, desc, pos string
		query                                 string
		obl                                   *vc.Obligation
	}
	var fails []fail
	var records []oblRecord
	backends := map[string]*struct {
		N int
		S float64
	}{}
	nObl, nDis, nCover := 0, 0, 0
	var discharged []string
	for _, r := range results {
		rec := oblRecord{Name: r.Obl.Name, Kind: r.Obl.Kind, Status: r.Status, Solver: r.Solver, Seconds: r.Seconds, Desc: r.Obl.Desc, Pos: r.Obl.Pos}
		records = append(records, rec)
		if r.Obl.ExpectSat {
			nCover++
			if !r.OK {
				fails = append(fails, fail{r.Obl.Name, "vacuous(" + r.Status + ")", r.Output, r.Obl.Kind, r.Obl.Desc, r.Obl.Pos, r.Obl.Query(), r.Obl})
			}
			continue
		}
		nObl++
		b := backends[r.Solver]
		if b == nil {
			b = &struct {
				N int
				S float64
			}{}
			backends[r.Solver] = b
		}
		b.N++
		b.S += r.Seconds
		if r.OK {
			nDis++
			discharged = append(discharged, r.Obl.Name)
		} else {
			fails = append(fails, fail{r.Obl.Name, r.Status, r.Output, r.Obl.Kind, r.Obl.Desc, r.Obl.Pos, r.Obl.Query(), r.Obl})
		}
	}
	for _, s := range sres {
		nObl++
		rec := oblRecord{Name: s.Name, Kind: "structural", Status: s.Status, Solver: "frames", Seconds: s.Seconds, Desc: s.Desc}
		records = append(records, rec)
		b := backends["frames"]
		if b == nil {
			b = &struct {
				N int
				S float64
			}{}
			backends["frames"] = b
		}
		b.N++
		b.S += s.Seconds
		if s.OK {
			nDis++
			discharged = append(discharged, s.Name)
		} else {
			fails = append(fails, fail{s.Name, s.Status, s.Detail, "structural", s.Desc, "", "", nil})
		}
	}
	if *writeBaseline {
		sort.Strings(discharged)
		b, _ := json.MarshalIndent(discharged, "", " ")
		os.MkdirAll(filepath.Join(vd, "baseline"), 0o755)
		os.WriteFile(filepath.Join(vd, "baseline", *prop+".json"), append(b, '\n'), 0o644)
		fmt.Printf("baseline: %d obligations written\n", len(discharged))
	}
	violations := 0
	known := 0
	undecided := 0
	replayDir := filepath.Join(vd, "replays", *prop)
	for i := range kf.Findings {
		f := &kf.Findings[i]
		if f.Property != *prop || f.Status != "open" || f.Replay == "" || f.Obligation != "" {
			continue
		}
		still, out := replayFinding(vd, *repo, f)
		if still {
			fmt.Printf("KNOWN-FINDING: property=%s %s (reproduced on this tree by %s): %s\n", *prop, f.Run, f.Replay, f.What)
			known++
		} else {
			notes = append(notes, "known finding "+f.Run+" is no longer reproduced by "+f.Replay+": "+out)
		}
	}
	for _, f := range fails {
		if kfm := matchFinding(kf.Findings, *prop, f.name); kfm != nil {
			fmt.Printf("KNOWN-FINDING: property=%s %s: %s\n", *prop, f.name, kfm.What)
			known++
			continue
		}
		// a failing obligation of the frames back end is decided, not timed out: it
		// is reported even when it did not exist on the pinned tree (e.g. the
		// reads-obligation generated for a struct field added later); 'unbound'
		// ones (the code shape changed) stay undecided
		definiteStructural := f.kind == "structural" && f.status == "fails"
		if !inBase[f.name] && !*writeBaseline && len(baseline) > 0 && !definiteStructural {
			// an obligation that did not exist on the pinned tree: alarm only with a confirmed replay
			confirmed, path := tryReplay(f.obl, *prop, replayDir)
			if confirmed {
				fmt.Printf("VIOLATION property=%s replay=%s\n", *prop, path)
				violations++
			} else {
				undecided++
				notes = append(notes, "undecided (new obligation, no confirmed failing input): "+f.name+" status="+f.status)
			}
			continue
		}
		os.MkdirAll(replayDir, 0o755)
		path := filepath.Join(replayDir, sanitizeName(f.name)+".txt")
		confirmed, rpath := tryReplay(f.obl, *prop, replayDir)
		var body strings.Builder
		fmt.Fprintf(&body, "property: %s\nfailed obligation: %s\nkind: %s\nclause: %s\nwhere: %s\nsolver status: %s\n", *prop, f.name, f.kind, f.desc, f.pos, f.status)
		fmt.Fprintf(&body, "meaning: this obligation is discharged on the pinned tree (baseline) and is no longer discharged on the current tree.\n")
		fmt.Fprintf(&body, "solver output:\n%s\n", f.output)
		if confirmed {
			fmt.Fprintf(&body, "failing input replayed on the real code: %s\n", rpath)
		} else {
			fmt.Fprintf(&body, "no-failing-input-found: the verifier gave no model that could be replayed on the real code.\n")
		}
		if f.query != "" {
			qpath := filepath.Join(replayDir, sanitizeName(f.name)+".smt2")
			os.WriteFile(qpath, []byte(f.query), 0o644)
			fmt.Fprintf(&body, "SMT query: %s\nre-run: z3-new -T:60 %s\n", qpath, qpath)
		}
		os.WriteFile(path, []byte(body.String()), 0o644)
		if confirmed {
			fmt.Printf("VIOLATION property=%s replay=%s\n", *prop, rpath)
		} else {
			fmt.Printf("VIOLATION property=%s replay=%s obligation=%s no-failing-input-found\n", *prop, path, f.name)
		}
		violations++
	}
	// vacuity: no obligations at all is a broken check, not a pass
	if nObl == 0 {
		fmt.Printf("ERROR property=%s: no obligations generated (unbound: %v)\n", *prop, unbound)
		os.Exit(3)
	}
	if *verbose {
		for _, r := range records {
			fmt.Printf("  %-8s %-8s %6.2fs %s\n", r.Status, r.Solver, r.Seconds, r.Name)
		}
	}
	for _, u := range unsupp {
		fmt.Println("  unsupported:", u)
	}
	for _, u := range unbound {
		fmt.Println("  unbound:", u)
		fmt.Printf("UNDECIDED property=%s: %s - its obligations could not be generated, nothing about it is decided on this tree\n", *prop, u)
		undecided++
	}
	wall := time.Since(t0).Seconds()
	fmt.Printf("property=%s tier=%s functions=%d obligations=%d discharged=%d covers=%d known=%d undecided=%d violations=%d wall=%.1fs\n", *prop, *tier, len(funcsUnder), nObl, nDis, nCover, known, undecided, violations, wall)
	if !*noEvidence {
		writeEvidence(vd, &cfg, *tier, seed, funcsUnder, records, nObl, nDis, nCover, backends, notes, unsupp, unbound, known, undecided, violations, wall, eng)
	}
	if violations > 0 {
		os.Exit(1)
	}
}

func sanitizeName(s string) string {
	var b strings.Builder
	for _, r := range s {
		if (r >= 'a' && r <= 'z') || (r >= 'A' && r <= 'Z') || (r >= '0' && r <= '9') || r == '.' || r == '-' {
			b.WriteRune(r)
		} else {
			b.WriteByte('_')
		}
	}
	out := b.String()
	if len(out) > 150 {
		out = out[:150]
	}
	return out
}

func dedup(xs []string) []string {
	seen := map[string]bool{}
	var out []string
	for _, x := range xs {
		if !seen[x] {
			seen[x] = true
			out = append(out, x)
		}
	}
	return out
}

func writeEvidence(vd string, cfg *PropConfig, tier string, seed int, funcs []string, recs []oblRecord, nObl, nDis, nCover int, backends map[string]*struct {
	N int
	S float64
}, notes, unsupp, unbound []string, known, undecided, violations int, wall float64, eng *vc.Engine) {
	level := "proof"
	if nDis != nObl || len(unbound) > 0 || known > 0 {
		// an open known finding (also one identified by a reproduction rather
		// than by a failing obligation) means the property is not proved
		level = "other"
	}
	var samples []interface{}
	for i, r := range recs {
		if i%maxInt(1, len(recs)/25) == 0 {
			samples = append(samples, map[string]interface{}{"obligation": r.Name, "kind": r.Kind, "status": r.Status, "backend": r.Solver, "clause": r.Desc})
		}
	}
	be := map[string]interface{}{}
	solverS := 0.0
	for k, v := range backends {
		be[k] = map[string]interface{}{"obligations": v.N, "seconds": round2(v.S)}
		solverS += v.S
	}
	notes = dedup(notes)
	var trusted []string
	var abstractions []string
	for _, n := range notes {
		if strings.HasPrefix(n, "stdspec ") || strings.HasPrefix(n, "axiom ") || strings.Contains(n, "treated as pure") {
			trusted = append(trusted, n)
		} else {
			abstractions = append(abstractions, n)
		}
	}
	trusted = append(trusted,
		"go/packages + go/types + go/ssa (x/tools v0.29.0) translate the source faithfully; govc's SSA->SMT encoding (DESIGN.md 2.4) is faithful for the stated subset",
		"SMT solvers z3 4.8.12, z3 5.1.0 (z3-new), cvc5 1.0",
		"contract files /repo/**/zz_verif_contracts.go: every 'trusted' function, 'abstract' function and 'axiom' used is listed above")
	assumptions := append([]string{}, cfg.Assumptions...)
	assumptions = append(assumptions,
		"signed 64-bit integer arithmetic (int, int64) is treated as mathematical (no overflow obligations); unsigned and narrow signed types wrap exactly",
		"64-bit platform (int = int64)",
		"fresh allocations are distinct from all previously reachable memory; sync primitives have no effect on modelled heaps")
	for _, u := range cfg.Unverified {
		assumptions = append(assumptions, "not verified (outside the contracts of this property): "+u)
	}
	for _, a := range abstractions {
		assumptions = append(assumptions, "abstraction: "+a)
	}
	for _, u := range unsupp {
		assumptions = append(assumptions, "unsupported construct (function degraded): "+u)
	}
	for _, u := range unbound {
		assumptions = append(assumptions, "contract did not bind to code: "+u)
	}
	cov := map[string]interface{}{
		"obligations":              nObl,
		"discharged":               nDis,
		"checker_cmd":              fmt.Sprintf("/verif/bin/govc check -prop %s -tier %s", cfg.ID, tier),
		"trusted_base":             trusted,
		"samples":                  samples,
		"functions_under_contract": funcs,
		"backends":                 be,
		"solver_seconds":           round2(solverS),
		"vacuity_covers_checked":   nCover,
		"known_findings_reported":  known,
		"undecided_new_obligations": undecided,
		"spec_files":               eng.SpecFiles,
		"explanation":              fmt.Sprintf("%d of %d proof obligations generated from the current /repo tree for the functions under contract were discharged (unsat) by the listed back ends; 'frames' obligations are decided by govc's own SSA analyses, not by an SMT solver. %s", nDis, nObl, cfg.Note),
	}
	ev := map[string]interface{}{
		"property_id": cfg.ID,
		"tier":        tier,
		"seed":        seed,
		"level":       level,
		"coverage":    cov,
		"assumptions": assumptions,
		"wall_s":      round2(wall),
		"violations":  violations,
	}
	b, _ := json.MarshalIndent(ev, "", " ")
	os.MkdirAll(filepath.Join(vd, "evidence"), 0o755)
	os.WriteFile(filepath.Join(vd, "evidence", cfg.ID+".json"), append(b, '\n'), 0o644)
}

func maxInt(a, b int) int {
	if a > b {
		return a
	}
	return b
}

func round2(f float64) float64 { return float64(int(f*100+0.5)) / 100 }


// replayFinding runs the reproduction of a known finding against the real
// code of the current tree: true while the test fails (the defect is present).
func replayFinding(vd, repo string, f *Finding) (bool, string) {
	src := filepath.Join(vd, f.Replay)
	pkgDir := filepath.Join(repo, strings.TrimPrefix(f.Pkg, "./"))
	ov := fmt.Sprintf(`{"Replace":{%q:%q}}`, filepath.Join(pkgDir, "zz_verif_known_finding_test.go"), src)
	tmp, err := os.CreateTemp("", "govc-ov-*.json")
	if err != nil {
		return false, err.Error()
	}
	defer os.Remove(tmp.Name())
	tmp.WriteString(ov)
	tmp.Close()
	ctx, cancel := context.WithTimeout(context.Background(), 5*time.Minute)
	defer cancel()
	cmd := exec.CommandContext(ctx, "go", "test", "-mod=mod", "-overlay", tmp.Name(), "-vet=off", "-count=1", "-timeout", "240s", "-run", f.Run, ".")
	cmd.Dir = pkgDir
	cmd.Env = append(os.Environ(), "GOFLAGS=-mod=mod", "GOPROXY=off")
	out, _ := cmd.CombinedOutput()
	o := string(out)
	if strings.Contains(o, "--- FAIL") {
		return true, ""
	}
	if strings.Contains(o, "\nok ") || strings.HasPrefix(o, "ok ") {
		return false, "test passes"
	}
	if len(o) > 300 {
		o = o[len(o)-300:]
	}
	return false, "test did not run: " + o
}
