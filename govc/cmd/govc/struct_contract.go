package main

import (
	"sort"
	"fmt"
	"go/token"
	"go/types"
	"strings"

	"golang.org/x/tools/go/ssa"

	"govc/vc"
)

// ---- guard clauses written in the contract files (frames back end) ----

// parseGuard turns "[!]kind:name" into a guardSpec.
func parseGuard(g string) (guardSpec, error) {
	neg := strings.HasPrefix(g, "!")
	body := strings.TrimPrefix(g, "!")
	kind, name, ok := strings.Cut(body, ":")
	if !ok {
		return guardSpec{}, fmt.Errorf("guard %q: expected kind:name", g)
	}
	// want: the condition value that must be TRUE on the allowed edge
	wantTrue := !neg
	allowed := func(condIsNegated bool) int {
		// If's successor 0 is taken when the If condition is true
		if condIsNegated != wantTrue {
			return 0
		}
		return 1
	}
	switch kind {
	case "field":
		return guardSpec{desc: g, match: func(c ssa.Value) (int, bool) {
			v, n := stripNot(c)
			_, fn, ok := fieldOfLoad(v)
			if !ok || fn != name {
				return 0, false
			}
			if _, isBool := v.Type().Underlying().(*types.Basic); !isBool {
				return 0, false
			}
			return allowed(n), true
		}}, nil
	case "var":
		return guardSpec{desc: g, match: func(c ssa.Value) (int, bool) {
			v, n := stripNot(c)
			switch x := v.(type) {
			case *ssa.Parameter:
				if x.Name() == name {
					return allowed(n), true
				}
			case *ssa.UnOp:
				// load of a flag pointer / captured or address-taken variable named so
				if x.Op == token.MUL {
					switch a := x.X.(type) {
					case *ssa.Alloc:
						if a.Comment == name {
							return allowed(n), true
						}
					case *ssa.Parameter:
						if a.Name() == name {
							return allowed(n), true
						}
					case *ssa.FreeVar:
						if a.Name() == name {
							return allowed(n), true
						}
					}
					// *flags.Bool(...) result stored in a variable: DebugRef naming is not
					// available here; match by the defining call's variable comment
					if call, isCall := x.X.(*ssa.Call); isCall && call.Name() == name {
						return allowed(n), true
					}
				}
			}
			return 0, false
		}}, nil
	case "call":
		return guardSpec{desc: g, match: func(c ssa.Value) (int, bool) {
			v, n := stripNot(c)
			call, ok := v.(*ssa.Call)
			if !ok || !vc.AnchorMatches(call, "call:"+name) {
				return 0, false
			}
			return allowed(n), true
		}}, nil
	case "eqcall":
		// the condition compares (== / !=) the result of a call to <name> with
		// something; the allowed edge is the one on which they are equal (or, with
		// a leading '!', different)
		return guardSpec{desc: g, match: func(c ssa.Value) (int, bool) {
			b, ok := c.(*ssa.BinOp)
			if !ok || (b.Op != token.EQL && b.Op != token.NEQ) {
				return 0, false
			}
			isCall := func(v ssa.Value) bool {
				if ex, isEx := v.(*ssa.Extract); isEx {
					v = ex.Tuple
				}
				ci, ok := v.(*ssa.Call)
				return ok && vc.AnchorMatches(ci, "call:"+name)
			}
			if !isCall(b.X) && !isCall(b.Y) {
				return 0, false
			}
			eqOnTrue := b.Op == token.EQL
			if eqOnTrue == wantTrue {
				return 0, true
			}
			return 1, true
		}}, nil
	case "res0", "res1", "res2":
		// the condition is the boolean result #i of a call to <name>
		idx := int(kind[3] - '0')
		return guardSpec{desc: g, match: func(c ssa.Value) (int, bool) {
			v, n := stripNot(c)
			var call ssa.Value
			if ex, isEx := v.(*ssa.Extract); isEx && ex.Index == idx {
				call = ex.Tuple
			} else if idx == 0 {
				call = v
			}
			ci, ok := call.(*ssa.Call)
			if !ok || !vc.AnchorMatches(ci, "call:"+name) {
				return 0, false
			}
			return allowed(n), true
		}}, nil
	case "nilerr":
		// the error result of a call to <name> compared with nil
		return guardSpec{desc: g, match: func(c ssa.Value) (int, bool) {
			b, ok := c.(*ssa.BinOp)
			if !ok || (b.Op != token.EQL && b.Op != token.NEQ) {
				return 0, false
			}
			x, y := b.X, b.Y
			if k, isC := x.(*ssa.Const); isC && k.Value == nil {
				x, y = y, x
			}
			if k, isC := y.(*ssa.Const); !isC || k.Value != nil {
				return 0, false
			}
			var call ssa.Value = x
			if ex, isEx := x.(*ssa.Extract); isEx {
				call = ex.Tuple
			}
			ci, isCall := call.(*ssa.Call)
			if !isCall || !vc.AnchorMatches(ci, "call:"+name) {
				return 0, false
			}
			if b.Op == token.EQL {
				return 0, true // err == nil: allowed edge is the true one
			}
			return 1, true
		}}, nil
	}
	return guardSpec{}, fmt.Errorf("guard %q: unknown kind %q", g, kind)
}

// guardClauseResults decides the guard clauses of the contract of fname.
func guardClauseResults(eng *vc.Engine, fname string) []StructResult {
	spec := eng.Spec.Funcs[fname]
	fn := eng.Func(fname)
	if spec == nil || fn == nil || (len(spec.Guards) == 0 && len(spec.Orders) == 0 && len(spec.Reads) == 0 && len(spec.ControlOnly) == 0 && len(spec.DebugOnly) == 0 && !spec.MapOrderIndependent && len(spec.FeedsOnly) == 0 && !spec.ReturnsFresh && len(spec.NoStoreThrough) == 0) {
		return nil
	}
	var out []StructResult
	for _, clause := range spec.NoStoreThrough {
		fs := strings.Fields(strings.ReplaceAll(clause, ",", " "))
		if len(fs) == 0 {
			continue
		}
		tn := fs[0]
		except := map[string]bool{}
		if len(fs) > 2 && fs[1] == "except" {
			for _, e := range fs[2:] {
				except[e] = true
			}
		}
		bad, nFuncs := storesThrough(eng, fn, tn, except)
		name := fmt.Sprintf("%s#no-store-through:%s", fname, tn)
		detail := ""
		if len(bad) > 0 {
			sort.Strings(bad)
			detail = strings.Join(bad, "; ")
			if len(detail) > 600 {
				detail = detail[:600] + " ..."
			}
		}
		out = append(out, StructResult{Name: name, Desc: fmt.Sprintf("no function reachable from %s (%d functions of its package, interface calls resolved by method name) writes memory reached through a *%s", fname, nFuncs, tn), OK: len(bad) == 0, Detail: detail})
	}
	if spec.ReturnsFresh {
		n := 0
		for _, b := range fn.Blocks {
			ret, ok := b.Instrs[len(b.Instrs)-1].(*ssa.Return)
			if !ok || len(ret.Results) == 0 {
				continue
			}
			n++
			why := notFresh(eng, fn, ret.Results[0], map[ssa.Value]bool{})
			pos := eng.Prog.Fset.Position(ret.Pos())
			out = append(out, StructResult{Name: fmt.Sprintf("%s#returns-fresh@%d", fname, n), Desc: fmt.Sprintf("the value returned at %s:%d is allocated by this call (never a pre-existing object)", shortPath(pos.Filename), pos.Line), OK: why == "", Detail: why})
		}
	}
	for _, fc := range spec.FeedsOnly {
		st := structOfPkg(fn, fc.Type)
		if st == nil {
			out = append(out, StructResult{Name: fmt.Sprintf("%s#feeds:%s", fname, fc.Type), Desc: "struct type exists", OK: false, Status: "unbound", Detail: "type not found"})
			continue
		}
		bad := feedsUnchanged(fn, fc.Type, fc.Into)
		for i := 0; i < st.NumFields(); i++ {
			f := st.Field(i).Name()
			why, isBad := bad[f]
			out = append(out, StructResult{Name: fmt.Sprintf("%s#feeds:%s.%s", fname, fc.Type, f), Desc: fmt.Sprintf("the value of %s.%s reaches %s unchanged", fc.Type, f, strings.Join(fc.Into, "/")), OK: !isBad, Detail: why})
		}
	}
	if spec.MapOrderIndependent {
		why, nLoops, nFuncs := mapOrderIndependent(fn)
		out = append(out, StructResult{Name: fname + "#map-order-independent", Desc: fmt.Sprintf("no floating-point value is accumulated across the iterations of a range-over-map loop (%d such loops in %d functions reachable from %s)", nLoops, nFuncs, fname), OK: why == "", Detail: why})
	}
	for _, dc := range spec.DebugOnly {
		tn, field, ok := strings.Cut(dc.Field, ".")
		name := fmt.Sprintf("%s#debug-only:%s", fname, dc.Field)
		if !ok {
			out = append(out, StructResult{Name: name, Desc: "debug_only needs Type.field", OK: false, Status: "unbound"})
			continue
		}
		why, nLoads, nFuncs := debugOnly(fn, tn, field, dc.Writes)
		if nLoads == 0 {
			out = append(out, StructResult{Name: name + ":site", Desc: "the field is read somewhere reachable", OK: false, Status: "unbound", Detail: "no load of the field found in the function or in what it reaches in its package (code shape changed)"})
			continue
		}
		out = append(out, StructResult{Name: name, Desc: fmt.Sprintf("%s.%s only guards branches that write nothing but %s (%d reads in %d functions reachable from %s)", tn, field, strings.Join(dc.Writes, "/"), nLoads, nFuncs, fname), OK: why == "", Detail: why})
	}
	for _, tf := range spec.ControlOnly {
		tn, field, ok := strings.Cut(tf, ".")
		name := fmt.Sprintf("%s#control-only:%s", fname, tf)
		if !ok {
			out = append(out, StructResult{Name: name, Desc: "control_only needs Type.field", OK: false, Status: "unbound"})
			continue
		}
		okAll, why, nLoads := controlOnly(fn, tn, field)
		if nLoads == 0 {
			out = append(out, StructResult{Name: name + ":site", Desc: "the field is read in the function", OK: false, Status: "unbound", Detail: "no load of the field found (code shape changed)"})
			continue
		}
		out = append(out, StructResult{Name: name, Desc: fmt.Sprintf("%s.%s only decides branches in %s and is not read by anything it calls in its package", tn, field, fname), OK: okAll, Detail: why})
	}
	for _, rc := range spec.Reads {
		st := structOfPkg(fn, rc.Type)
		if st == nil {
			out = append(out, StructResult{Name: fmt.Sprintf("%s#reads:%s", fname, rc.Type), Desc: "struct type exists", OK: false, Status: "unbound", Detail: "type not found in the function's package"})
			continue
		}
		skip := map[string]bool{}
		for _, e := range rc.Except {
			skip[e] = true
		}
		read := fieldsRead(fn, rc.Type)
		for i := 0; i < st.NumFields(); i++ {
			f := st.Field(i).Name()
			if skip[f] {
				continue
			}
			out = append(out, StructResult{Name: fmt.Sprintf("%s#reads:%s.%s", fname, rc.Type, f), Desc: fmt.Sprintf("%s reads field %s of %s (generated from the struct type)", fname, f, rc.Type), OK: read[f], Detail: "the field is never read in this function"})
		}
	}
	for _, oc := range spec.Orders {
		name := fmt.Sprintf("%s#order:%s before %s", fname, oc.A, oc.B)
		as, bs := anchorSites(fn, oc.A), anchorSites(fn, oc.B)
		if len(as) == 0 || len(bs) == 0 {
			out = append(out, StructResult{Name: name + ":sites", Desc: "the instructions named by the order clause exist", OK: false, Status: "unbound", Detail: fmt.Sprintf("%d / %d sites found (code shape changed)", len(as), len(bs))})
			continue
		}
		ok, why := true, ""
		for _, b := range bs {
			for _, a := range as {
				if instrReachableFromInstr(b, a) {
					ok, why = false, fmt.Sprintf("%s is reachable after %s", oc.A, oc.B)
				}
			}
		}
		out = append(out, StructResult{Name: name, Desc: "no " + oc.A + " is executed after a " + oc.B, OK: ok, Detail: why})
	}
	for _, gc := range spec.Guards {
		var groups [][]guardSpec
		bad := ""
		for _, g := range gc.Guards {
			gs, err := parseGuard(g)
			if err != nil {
				bad = err.Error()
				break
			}
			groups = append(groups, []guardSpec{gs})
		}
		name := fmt.Sprintf("%s#guard:%s by %s", fname, gc.Effect, strings.Join(gc.Guards, " && "))
		if bad != "" {
			out = append(out, StructResult{Name: name, Desc: gc.Text, OK: false, Status: "unbound", Detail: bad})
			continue
		}
		var sites []ssa.Instruction
		for _, b := range fn.Blocks {
			for _, ins := range b.Instrs {
				if _, isDefer := ins.(*ssa.Defer); isDefer {
					continue
				}
				if vc.AnchorMatches(ins, gc.Effect) {
					sites = append(sites, ins)
				}
			}
		}
		if len(sites) == 0 {
			out = append(out, StructResult{Name: name + ":site", Desc: "the effect site " + gc.Effect + " exists", OK: false, Status: "unbound", Detail: "no instruction matches the effect anchor (code shape changed)"})
			continue
		}
		for i, s := range sites {
			ok, why := checkGuarded(fn, s.Block(), groups)
			out = append(out, StructResult{Name: fmt.Sprintf("%s@%d", name, i+1), Desc: gc.Effect + " only on paths where " + strings.Join(gc.Guards, " and "), OK: ok, Detail: why})
		}
	}
	return out
}

// anchorSites: the non-deferred instructions of fn matching an anchor
// ("call:Remove#2" = the second one in block order).
func anchorSites(fn *ssa.Function, anchor string) []ssa.Instruction {
	occ := 0
	if j := strings.LastIndex(anchor, "#"); j > 0 {
		fmt.Sscanf(anchor[j+1:], "%d", &occ)
		anchor = anchor[:j]
	}
	var out []ssa.Instruction
	n := 0
	for _, b := range fn.Blocks {
		for _, ins := range b.Instrs {
			if _, isDefer := ins.(*ssa.Defer); isDefer {
				continue
			}
			if vc.AnchorMatches(ins, anchor) {
				n++
				if occ == 0 || occ == n {
					out = append(out, ins)
				}
			}
		}
	}
	return out
}

// structOfPkg finds struct type name in the package of fn.
func structOfPkg(fn *ssa.Function, name string) *types.Struct {
	for fn.Parent() != nil {
		fn = fn.Parent()
	}
	if fn.Pkg == nil {
		return nil
	}
	obj := fn.Pkg.Pkg.Scope().Lookup(name)
	if obj == nil {
		return nil
	}
	st, _ := obj.Type().Underlying().(*types.Struct)
	return st
}

// fieldsRead: names of the fields of struct type tname that fn loads (through a
// field address whose value is loaded, or a field extraction of a struct value).
func fieldsRead(fn *ssa.Function, tname string) map[string]bool {
	out := map[string]bool{}
	isT := func(t types.Type) (*types.Struct, bool) {
		if p, ok := t.Underlying().(*types.Pointer); ok {
			t = p.Elem()
		}
		n, ok := t.(*types.Named)
		if !ok || n.Obj().Name() != tname {
			return nil, false
		}
		st, ok := n.Underlying().(*types.Struct)
		return st, ok
	}
	for _, b := range fn.Blocks {
		for _, ins := range b.Instrs {
			switch x := ins.(type) {
			case *ssa.FieldAddr:
				st, ok := isT(x.X.Type())
				if !ok {
					continue
				}
				if refs := x.Referrers(); refs != nil {
					for _, r := range *refs {
						if u, isU := r.(*ssa.UnOp); isU && u.Op == token.MUL {
							out[st.Field(x.Field).Name()] = true
						}
					}
				}
			case *ssa.Field:
				if st, ok := isT(x.X.Type()); ok {
					out[st.Field(x.Field).Name()] = true
				}
			}
		}
	}
	return out
}

// controlOnly: in fn every load of field tname.field is used only by
// comparisons (and boolean negations / phis of them) that only feed If
// instructions; and no function of fn's package that is statically reachable
// from fn loads the field at all.
func controlOnly(fn *ssa.Function, tname, field string) (bool, string, int) {
	isLoadOf := func(ins ssa.Instruction) (ssa.Value, bool) {
		switch x := ins.(type) {
		case *ssa.UnOp:
			if x.Op != token.MUL {
				return nil, false
			}
			fa, ok := x.X.(*ssa.FieldAddr)
			if !ok {
				return nil, false
			}
			st := fa.X.Type().Underlying().(*types.Pointer).Elem()
			n, isN := st.(*types.Named)
			if !isN || n.Obj().Name() != tname {
				return nil, false
			}
			if st.Underlying().(*types.Struct).Field(fa.Field).Name() != field {
				return nil, false
			}
			return x, true
		case *ssa.Field:
			n, isN := x.X.Type().(*types.Named)
			if !isN || n.Obj().Name() != tname {
				return nil, false
			}
			if n.Underlying().(*types.Struct).Field(x.Field).Name() != field {
				return nil, false
			}
			return x, true
		}
		return nil, false
	}
	nLoads := 0
	var controlUse func(v ssa.Value, seen map[ssa.Value]bool) (bool, string)
	controlUse = func(v ssa.Value, seen map[ssa.Value]bool) (bool, string) {
		if seen[v] {
			return true, ""
		}
		seen[v] = true
		refs := v.Referrers()
		if refs == nil {
			return true, ""
		}
		for _, r := range *refs {
			switch u := r.(type) {
			case *ssa.DebugRef:
			case *ssa.If:
			case *ssa.BinOp:
				switch u.Op {
				case token.EQL, token.NEQ, token.LSS, token.LEQ, token.GTR, token.GEQ:
					if ok, why := controlUse(u, seen); !ok {
						return false, why
					}
				default:
					return false, fmt.Sprintf("used in arithmetic (%s)", u.Op)
				}
			case *ssa.UnOp:
				if u.Op == token.NOT {
					if ok, why := controlUse(u, seen); !ok {
						return false, why
					}
				} else {
					return false, "used by a unary operation"
				}
			case *ssa.Phi:
				if _, isBool := u.Type().Underlying().(*types.Basic); isBool && u.Type().Underlying().(*types.Basic).Kind() == types.Bool {
					if ok, why := controlUse(u, seen); !ok {
						return false, why
					}
				} else {
					return false, "flows into a non-boolean phi"
				}
			default:
				return false, fmt.Sprintf("flows into %T", r)
			}
		}
		return true, ""
	}
	for _, b := range fn.Blocks {
		for _, ins := range b.Instrs {
			if v, ok := isLoadOf(ins); ok {
				nLoads++
				if ok2, why := controlUse(v, map[ssa.Value]bool{}); !ok2 {
					return false, why, nLoads
				}
			}
		}
	}
	// reachable functions of the same package must not read the field at all
	seen := map[*ssa.Function]bool{fn: true}
	var work []*ssa.Function
	push := func(f *ssa.Function) {
		if f != nil && !seen[f] && f.Blocks != nil && f.Pkg != nil && fn.Pkg != nil && f.Pkg == fn.Pkg {
			seen[f] = true
			work = append(work, f)
		}
	}
	scanCalls := func(f *ssa.Function) {
		for _, b := range f.Blocks {
			for _, ins := range b.Instrs {
				if c, ok := ins.(ssa.CallInstruction); ok {
					push(c.Common().StaticCallee())
				}
				if mc, ok := ins.(*ssa.MakeClosure); ok {
					if cf, isF := mc.Fn.(*ssa.Function); isF {
						if !seen[cf] && cf.Blocks != nil {
							seen[cf] = true
							work = append(work, cf)
						}
					}
				}
			}
		}
	}
	scanCalls(fn)
	for len(work) > 0 {
		f := work[len(work)-1]
		work = work[:len(work)-1]
		for _, b := range f.Blocks {
			for _, ins := range b.Instrs {
				if _, ok := isLoadOf(ins); ok {
					return false, "read in " + vc.FuncName(f) + ", which is reachable from here", nLoads
				}
			}
		}
		scanCalls(f)
	}
	return true, "", nLoads
}

// feedsUnchanged: for every load of a field of struct tname in fn, follow the
// value forward; allowed: boxing into an interface, conversions, being stored
// into a variadic argument array whose slice is passed to an allowed call,
// being passed directly to an allowed call, debug references. Anything else
// (append, copy, sort, other calls, arithmetic) is reported per field.
func feedsUnchanged(fn *ssa.Function, tname string, into []string) map[string]string {
	bad := map[string]string{}
	allowedCall := func(c ssa.CallInstruction) bool {
		for _, n := range into {
			if vc.AnchorMatches(c, "call:"+n) {
				return true
			}
		}
		return false
	}
	var follow func(v ssa.Value, seen map[ssa.Value]bool) string
	follow = func(v ssa.Value, seen map[ssa.Value]bool) string {
		if seen[v] {
			return ""
		}
		seen[v] = true
		refs := v.Referrers()
		if refs == nil {
			return ""
		}
		for _, r := range *refs {
			switch u := r.(type) {
			case *ssa.DebugRef:
			case *ssa.MakeInterface, *ssa.Convert, *ssa.ChangeType, *ssa.ChangeInterface:
				if why := follow(u.(ssa.Value), seen); why != "" {
					return why
				}
			case *ssa.Store:
				if u.Val != v {
					return "its address is written through"
				}
				// stored into a variadic argument slot: follow the array
				ia, ok := u.Addr.(*ssa.IndexAddr)
				if !ok {
					return "stored into memory"
				}
				al, ok := ia.X.(*ssa.Alloc)
				if !ok || al.Comment != "varargs" {
					return "stored into memory"
				}
				arefs := al.Referrers()
				if arefs != nil {
					for _, ar := range *arefs {
						if sl, isSl := ar.(*ssa.Slice); isSl {
							if why := follow(sl, seen); why != "" {
								return why
							}
						}
					}
				}
			case ssa.CallInstruction:
				if !allowedCall(u) {
					name := "a call"
					if c := u.Common().StaticCallee(); c != nil {
						name = c.RelString(nil)
					} else if b, isB := u.Common().Value.(*ssa.Builtin); isB {
						name = "builtin " + b.Name()
					}
					return "passed to " + name
				}
			default:
				return fmt.Sprintf("used by %T", r)
			}
		}
		return ""
	}
	for _, b := range fn.Blocks {
		for _, ins := range b.Instrs {
			var fieldName string
			var val ssa.Value
			switch x := ins.(type) {
			case *ssa.UnOp:
				if x.Op != token.MUL {
					continue
				}
				fa, ok := x.X.(*ssa.FieldAddr)
				if !ok {
					continue
				}
				pt, ok := fa.X.Type().Underlying().(*types.Pointer)
				if !ok {
					continue
				}
				n, isN := pt.Elem().(*types.Named)
				if !isN || n.Obj().Name() != tname {
					continue
				}
				fieldName, val = n.Underlying().(*types.Struct).Field(fa.Field).Name(), x
			case *ssa.Field:
				n, isN := x.X.Type().(*types.Named)
				if !isN || n.Obj().Name() != tname {
					continue
				}
				fieldName, val = n.Underlying().(*types.Struct).Field(x.Field).Name(), x
			default:
				continue
			}
			if why := follow(val, map[ssa.Value]bool{}); why != "" {
				bad[fieldName] = why
			}
		}
	}
	return bad
}

func shortPath(p string) string { return strings.TrimPrefix(p, "/repo/") }

// notFresh explains why v may be an object that existed before the call of fn
// ("" if it cannot be): allowed are allocations of fn, nil, interface boxing
// and conversions of allowed values, phis of allowed values, and results of
// calls to functions (including fn itself) whose contract says returns_fresh.
func notFresh(eng *vc.Engine, fn *ssa.Function, v ssa.Value, seen map[ssa.Value]bool) string {
	if seen[v] {
		return ""
	}
	seen[v] = true
	switch x := v.(type) {
	case *ssa.Alloc:
		return sharedBeforeReturn(fn, x)
	case *ssa.Const:
		if x.Value == nil {
			return ""
		}
		return "a constant"
	case *ssa.MakeInterface:
		return notFresh(eng, fn, x.X, seen)
	case *ssa.ChangeInterface:
		return notFresh(eng, fn, x.X, seen)
	case *ssa.ChangeType:
		return notFresh(eng, fn, x.X, seen)
	case *ssa.Phi:
		for _, e := range x.Edges {
			if why := notFresh(eng, fn, e, seen); why != "" {
				return why
			}
		}
		return ""
	case *ssa.Extract:
		if x.Index != 0 {
			return "a secondary result of a call"
		}
		return notFresh(eng, fn, x.Tuple, seen)
	case *ssa.Call:
		callee := x.Call.StaticCallee()
		if callee == nil {
			return "the result of a dynamic call"
		}
		if callee == fn {
			return sharedBeforeReturn(fn, x)
		}
		if cs := eng.Spec.Funcs[vc.FuncName(callee)]; cs != nil && cs.ReturnsFresh {
			return sharedBeforeReturn(fn, x)
		}
		return "the result of " + vc.FuncName(callee) + ", which has no returns_fresh contract"
	case *ssa.UnOp:
		// an element of a local slice that only ever received fresh values
		if x.Op == token.MUL {
			if ia, ok := x.X.(*ssa.IndexAddr); ok {
				if _, isSlice := ia.X.Type().Underlying().(*types.Slice); isSlice {
					if why := sliceElemsNotFresh(eng, fn, ia.X, seen); why == "" {
						return ""
					} else {
						return "an element of a slice that may hold " + why
					}
				}
			}
		}
		return "a value loaded from memory"
	case *ssa.Parameter:
		return "the parameter " + x.Name()
	}
	return fmt.Sprintf("a %T", v)
}

// sharedBeforeReturn explains how the object v (allocated by fn, or obtained
// fresh from a callee) became reachable from memory that outlives the call
// before fn returns it ("" if it did not): the pointer - directly, boxed in an
// interface or converted - is handed to a call as an argument, sent on a
// channel, put in a map that fn did not make, or stored to an address that is
// not inside an object fn allocated itself. Such an object is no longer owned
// by the caller alone. Closures fn creates may capture it (not followed).
func sharedBeforeReturn(fn *ssa.Function, v ssa.Value) string {
	seen := map[ssa.Value]bool{}
	var walk func(x ssa.Value) string
	walk = func(x ssa.Value) string {
		if seen[x] {
			return ""
		}
		seen[x] = true
		refs := x.Referrers()
		if refs == nil {
			return ""
		}
		for _, r := range *refs {
			switch u := r.(type) {
			case *ssa.MakeInterface:
				if why := walk(u); why != "" {
					return why
				}
			case *ssa.ChangeInterface:
				if why := walk(u); why != "" {
					return why
				}
			case *ssa.ChangeType:
				if why := walk(u); why != "" {
					return why
				}
			case *ssa.Phi:
				if why := walk(u); why != "" {
					return why
				}
			case *ssa.Store:
				if u.Val == x && !addrInLocalObject(u.Addr) {
					return fmt.Sprintf("an object that was stored to memory the call did not allocate (%s)", shortPath(fn.Prog.Fset.Position(u.Pos()).String()))
				}
			case *ssa.MapUpdate:
				if u.Value == x || u.Key == x {
					if _, local := u.Map.(*ssa.MakeMap); !local {
						return fmt.Sprintf("an object that was put in a map (%s)", shortPath(fn.Prog.Fset.Position(u.Pos()).String()))
					}
				}
			case *ssa.Send:
				if u.X == x {
					return "an object that was sent on a channel"
				}
			case ssa.CallInstruction:
				c := u.Common()
				for _, a := range c.Args {
					if a == x {
						name := "a dynamic callee"
						if sc := c.StaticCallee(); sc != nil {
							name = vc.FuncName(sc)
						} else if c.IsInvoke() {
							name = c.Method.Name()
						} else if b, ok := c.Value.(*ssa.Builtin); ok {
							name = b.Name()
							if name == "append" || name == "len" || name == "cap" {
								continue
							}
						}
						return fmt.Sprintf("an object that was handed to %s before being returned (%s)", name, shortPath(fn.Prog.Fset.Position(u.Pos()).String()))
					}
				}
			}
		}
		return ""
	}
	return walk(v)
}

// addrInLocalObject: the address is a field or element (at any depth of
// embedding, not through a loaded pointer) of an allocation of this function.
func addrInLocalObject(a ssa.Value) bool {
	for {
		switch x := a.(type) {
		case *ssa.Alloc:
			return true
		case *ssa.FieldAddr:
			a = x.X
		case *ssa.IndexAddr:
			switch y := x.X.(type) {
			case *ssa.Alloc:
				return true
			case *ssa.MakeSlice:
				return true
			case *ssa.Slice:
				a = y.X
			default:
				return false
			}
		default:
			return false
		}
	}
}

// sliceElemsNotFresh: "" if every element the local slice value s can hold was
// put there by this function and is fresh.
func sliceElemsNotFresh(eng *vc.Engine, fn *ssa.Function, s ssa.Value, seen map[ssa.Value]bool) string {
	if seen[s] {
		return ""
	}
	seen[s] = true
	switch x := s.(type) {
	case *ssa.MakeSlice:
		return ""
	case *ssa.Const:
		if x.Value == nil {
			return ""
		}
	case *ssa.Phi:
		for _, e := range x.Edges {
			if why := sliceElemsNotFresh(eng, fn, e, seen); why != "" {
				return why
			}
		}
		return ""
	case *ssa.Slice:
		// s[a:b] of a slice, or arr[:] of a variadic argument array
		if al, ok := x.X.(*ssa.Alloc); ok {
			refs := al.Referrers()
			if refs != nil {
				for _, r := range *refs {
					ia, isIA := r.(*ssa.IndexAddr)
					if !isIA {
						continue
					}
					if irefs := ia.Referrers(); irefs != nil {
						for _, ir := range *irefs {
							if st, isSt := ir.(*ssa.Store); isSt && st.Addr == ia {
								if why := notFresh(eng, fn, st.Val, seen); why != "" {
									return why
								}
							}
						}
					}
				}
			}
			return ""
		}
		return sliceElemsNotFresh(eng, fn, x.X, seen)
	case *ssa.Call:
		if b, ok := x.Call.Value.(*ssa.Builtin); ok && b.Name() == "append" && len(x.Call.Args) == 2 {
			if why := sliceElemsNotFresh(eng, fn, x.Call.Args[0], seen); why != "" {
				return why
			}
			return sliceElemsNotFresh(eng, fn, x.Call.Args[1], seen)
		}
		return "elements produced by a call"
	case *ssa.UnOp:
		// the slice itself is loaded from a local variable cell: look at what is stored there
		if x.Op == token.MUL {
			if al, ok := x.X.(*ssa.Alloc); ok {
				if refs := al.Referrers(); refs != nil {
					for _, r := range *refs {
						if st, isSt := r.(*ssa.Store); isSt && st.Addr == ssa.Value(al) {
							if why := sliceElemsNotFresh(eng, fn, st.Val, seen); why != "" {
								return why
							}
						}
					}
				}
				return ""
			}
		}
	}
	return fmt.Sprintf("pre-existing values (%T)", s)
}

// storesThrough: the stores / map updates, in fn and in every function of its
// package reachable from it (static calls, closures, and interface calls
// resolved to every method of that name in the package), whose target address
// is reached through a value of type *tname (field, element, or a slice/pointer
// loaded from one of its fields), except through the excepted fields.
func storesThrough(eng *vc.Engine, fn *ssa.Function, tname string, except map[string]bool) ([]string, int) {
	isT := func(t types.Type) bool {
		p, ok := t.Underlying().(*types.Pointer)
		if !ok {
			return false
		}
		n, ok := p.Elem().(*types.Named)
		return ok && n.Obj().Name() == tname
	}
	// rootsAtT: does address/value v derive from a *T?
	var rootsAtT func(v ssa.Value, depth int) (bool, string)
	rootsAtT = func(v ssa.Value, depth int) (bool, string) {
		if depth > 12 {
			return false, ""
		}
		switch x := v.(type) {
		case *ssa.FieldAddr:
			if isT(x.X.Type()) {
				fname := x.X.Type().Underlying().(*types.Pointer).Elem().Underlying().(*types.Struct).Field(x.Field).Name()
				if except[fname] {
					return false, ""
				}
				return true, fname
			}
			return rootsAtT(x.X, depth+1)
		case *ssa.IndexAddr:
			return rootsAtT(x.X, depth+1)
		case *ssa.UnOp:
			if x.Op == token.MUL {
				return rootsAtT(x.X, depth+1)
			}
		case *ssa.Slice:
			return rootsAtT(x.X, depth+1)
		case *ssa.Field:
			return rootsAtT(x.X, depth+1)
		case *ssa.Phi:
			for _, e := range x.Edges {
				if ok, f := rootsAtT(e, depth+1); ok {
					return true, f
				}
			}
		}
		return false, ""
	}
	// methods of the package by name (for interface dispatch)
	byName := map[string][]*ssa.Function{}
	if fn.Pkg != nil {
		for _, m := range fn.Pkg.Members {
			if t, ok := m.(*ssa.Type); ok {
				for _, tt := range []types.Type{t.Type(), types.NewPointer(t.Type())} {
					ms := fn.Prog.MethodSets.MethodSet(tt)
					for i := 0; i < ms.Len(); i++ {
						if mf := fn.Prog.MethodValue(ms.At(i)); mf != nil && mf.Pkg == fn.Pkg {
							byName[mf.Name()] = append(byName[mf.Name()], mf)
						}
					}
				}
			}
		}
	}
	seen := map[*ssa.Function]bool{}
	var work []*ssa.Function
	push := func(f *ssa.Function) {
		if f != nil && !seen[f] && f.Blocks != nil {
			inPkg := f.Pkg == fn.Pkg || (f.Parent() != nil)
			if inPkg {
				seen[f] = true
				work = append(work, f)
			}
		}
	}
	push(fn)
	var bad []string
	for len(work) > 0 {
		f := work[len(work)-1]
		work = work[:len(work)-1]
		for _, b := range f.Blocks {
			for _, ins := range b.Instrs {
				switch x := ins.(type) {
				case *ssa.Store:
					if ok, fld := rootsAtT(x.Addr, 0); ok {
						pos := eng.Prog.Fset.Position(x.Pos())
						bad = append(bad, fmt.Sprintf("%s writes through .%s at %s:%d", vc.FuncName(f), fld, shortPath(pos.Filename), pos.Line))
					}
				case *ssa.MapUpdate:
					if ok, fld := rootsAtT(x.Map, 0); ok {
						pos := eng.Prog.Fset.Position(x.Pos())
						bad = append(bad, fmt.Sprintf("%s updates the map .%s at %s:%d", vc.FuncName(f), fld, shortPath(pos.Filename), pos.Line))
					}
				case *ssa.MakeClosure:
					if cf, ok := x.Fn.(*ssa.Function); ok {
						push(cf)
					}
				}
				if c, ok := ins.(ssa.CallInstruction); ok {
					cc := c.Common()
					if cc.IsInvoke() {
						for _, m := range byName[cc.Method.Name()] {
							push(m)
						}
					} else {
						push(cc.StaticCallee())
					}
				}
			}
		}
	}
	return bad, len(seen)
}


// debugOnly: over fn and every function of its package statically reachable
// from it (closures included), plus callees of any package that receive the
// flag as a bool argument: every load of tname.field (and every such
// parameter) is used only as a branch condition (possibly negated, or passed
// on as an argument); and the blocks that run only because of such a branch
// (those dominated by a successor that has the branch as its only
// predecessor) contain no store except to fields / variables named in
// `writes`, no call except formatting helpers and functions that receive the
// flag, no map update, send, go, defer, return or panic; and no phi after the
// branch merges a value coming out of such a block into a variable that is not
// named in `writes`. Returns "" or the first reason it does not hold.
func debugOnly(root *ssa.Function, tname, field string, writes []string) (string, int, int) {
	allowed := map[string]bool{}
	for _, w := range writes {
		allowed[w] = true
	}
	isLoadOf := func(ins ssa.Instruction) (ssa.Value, bool) {
		switch x := ins.(type) {
		case *ssa.UnOp:
			if x.Op != token.MUL {
				return nil, false
			}
			fa, ok := x.X.(*ssa.FieldAddr)
			if !ok {
				return nil, false
			}
			st := fa.X.Type().Underlying().(*types.Pointer).Elem()
			n, isN := st.(*types.Named)
			if !isN || n.Obj().Name() != tname {
				return nil, false
			}
			if st.Underlying().(*types.Struct).Field(fa.Field).Name() != field {
				return nil, false
			}
			return x, true
		case *ssa.Field:
			n, isN := x.X.Type().(*types.Named)
			if !isN || n.Obj().Name() != tname {
				return nil, false
			}
			if n.Underlying().(*types.Struct).Field(x.Field).Name() != field {
				return nil, false
			}
			return x, true
		}
		return nil, false
	}
	pos := func(f *ssa.Function, p token.Pos) string { return shortPath(f.Prog.Fset.Position(p).String()) }
	formatting := func(c *ssa.CallCommon) bool {
		if b, ok := c.Value.(*ssa.Builtin); ok {
			switch b.Name() {
			case "len", "cap", "append", "copy", "min", "max":
				return true
			}
			return false
		}
		if c.IsInvoke() {
			return c.Method.Name() == "String" || c.Method.Name() == "Error"
		}
		sc := c.StaticCallee()
		if sc == nil || sc.Pkg == nil {
			return sc != nil && (sc.Name() == "String" || sc.Name() == "Error")
		}
		switch sc.Pkg.Pkg.Path() {
		case "fmt":
			if strings.HasPrefix(sc.Name(), "Fprint") && len(c.Args) > 0 {
				// printing into a local buffer (strings.Builder, bytes.Buffer)
				if mi, ok := c.Args[0].(*ssa.MakeInterface); ok {
					if _, isLocal := mi.X.(*ssa.Alloc); isLocal {
						return true
					}
				}
				return false
			}
			return strings.HasPrefix(sc.Name(), "Sprint")
		case "strings", "strconv", "unicode/utf8", "math":
			return true
		}
		return sc.Name() == "String"
	}
	nameOfAddr := func(a ssa.Value) string {
		for {
			switch x := a.(type) {
			case *ssa.FieldAddr:
				st := x.X.Type().Underlying().(*types.Pointer).Elem().Underlying().(*types.Struct)
				return st.Field(x.Field).Name()
			case *ssa.IndexAddr:
				a = x.X
			case *ssa.Alloc:
				return x.Comment
			case *ssa.FreeVar:
				return x.Name()
			case *ssa.UnOp:
				a = x.X
			default:
				return ""
			}
		}
	}
	type taint struct {
		fn *ssa.Function
		v  ssa.Value
	}
	var work []taint
	seenV := map[ssa.Value]bool{}
	pushV := func(f *ssa.Function, v ssa.Value) {
		if !seenV[v] {
			seenV[v] = true
			work = append(work, taint{f, v})
		}
	}
	// collect loads in root and in what it reaches in its package
	seenF := map[*ssa.Function]bool{root: true}
	fq := []*ssa.Function{root}
	nLoads := 0
	funcsWith := map[*ssa.Function]bool{}
	for len(fq) > 0 {
		f := fq[len(fq)-1]
		fq = fq[:len(fq)-1]
		for _, b := range f.Blocks {
			for _, ins := range b.Instrs {
				if v, ok := isLoadOf(ins); ok {
					nLoads++
					funcsWith[f] = true
					pushV(f, v)
				}
				if c, ok := ins.(ssa.CallInstruction); ok {
					if sc := c.Common().StaticCallee(); sc != nil && !seenF[sc] && sc.Blocks != nil && sc.Pkg != nil && root.Pkg != nil && sc.Pkg == root.Pkg {
						seenF[sc] = true
						fq = append(fq, sc)
					}
				}
				if mc, ok := ins.(*ssa.MakeClosure); ok {
					if cf, isF := mc.Fn.(*ssa.Function); isF && !seenF[cf] && cf.Blocks != nil {
						seenF[cf] = true
						fq = append(fq, cf)
					}
				}
			}
		}
	}
	checkRegion := func(f *ssa.Function, ifb *ssa.BasicBlock, succ *ssa.BasicBlock) string {
		if len(succ.Preds) != 1 {
			return "" // a join: runs on both outcomes
		}
		inRegion := func(b *ssa.BasicBlock) bool { return succ == b || succ.Dominates(b) }
		for _, b := range f.Blocks {
			if !inRegion(b) {
				// phis merging values that come out of the region
				for _, ins := range b.Instrs {
					phi, ok := ins.(*ssa.Phi)
					if !ok {
						break
					}
					for k, p := range b.Preds {
						if inRegion(p) || p == ifb {
							_ = k
						}
					}
					fromRegion := false
					for _, p := range b.Preds {
						if inRegion(p) {
							fromRegion = true
						}
					}
					if fromRegion && !allowed[phi.Comment] {
						distinct := map[ssa.Value]bool{}
						for _, e := range phi.Edges {
							distinct[e] = true
						}
						if len(distinct) > 1 {
							return fmt.Sprintf("the value of %q after the branch at %s depends on whether the flag-only code ran", phi.Comment, pos(f, ifb.Instrs[len(ifb.Instrs)-1].Pos()))
						}
					}
				}
				continue
			}
			for _, ins := range b.Instrs {
				switch x := ins.(type) {
				case *ssa.Store:
					if n := nameOfAddr(x.Addr); !allowed[n] && n != "varargs" {
						return fmt.Sprintf("flag-only code stores to %q (%s)", n, pos(f, x.Pos()))
					}
				case *ssa.MapUpdate:
					return "flag-only code updates a map (" + pos(f, x.Pos()) + ")"
				case *ssa.Send, *ssa.Go, *ssa.Defer, *ssa.Panic:
					return fmt.Sprintf("flag-only code contains a %T (%s)", ins, pos(f, ins.Pos()))
				case *ssa.Return:
					return "flag-only code returns (" + pos(f, x.Pos()) + ")"
				case *ssa.Call:
					if formatting(x.Common()) {
						continue
					}
					// a callee that receives the flag (or a constant true in its place) is analysed through its parameter
					ok := false
					for _, a := range x.Common().Args {
						if seenV[a] {
							ok = true
						}
					}
					if !ok {
						name := "a dynamic callee"
						if sc := x.Common().StaticCallee(); sc != nil {
							name = vc.FuncName(sc)
						}
						return fmt.Sprintf("flag-only code calls %s (%s)", name, pos(f, x.Pos()))
					}
				}
			}
		}
		return ""
	}
	for len(work) > 0 {
		t := work[len(work)-1]
		work = work[:len(work)-1]
		refs := t.v.Referrers()
		if refs == nil {
			continue
		}
		for _, r := range *refs {
			switch u := r.(type) {
			case *ssa.DebugRef:
			case *ssa.If:
				b := u.Block()
				for _, succ := range b.Succs {
					if why := checkRegion(t.fn, b, succ); why != "" {
						return why, nLoads, len(funcsWith)
					}
				}
			case *ssa.UnOp:
				if u.Op != token.NOT {
					return "the flag is used by a unary operation (" + pos(t.fn, u.Pos()) + ")", nLoads, len(funcsWith)
				}
				pushV(t.fn, u)
			case *ssa.Phi:
				if bt, isB := u.Type().Underlying().(*types.Basic); isB && bt.Kind() == types.Bool {
					pushV(t.fn, u)
				} else {
					return "the flag flows into a non-boolean value (" + pos(t.fn, u.Pos()) + ")", nLoads, len(funcsWith)
				}
			case ssa.CallInstruction:
				sc := u.Common().StaticCallee()
				if sc == nil || sc.Blocks == nil {
					return "the flag is passed to a function that cannot be followed (" + pos(t.fn, u.Pos()) + ")", nLoads, len(funcsWith)
				}
				args := u.Common().Args
				off := 0
				if sc.Signature.Recv() != nil && len(sc.Params) == len(args) {
					off = 0
				}
				for i, a := range args {
					if a == t.v && i-off < len(sc.Params) {
						funcsWith[sc] = true
						pushV(sc, sc.Params[i])
					}
				}
			default:
				return fmt.Sprintf("the flag flows into a %T (%s)", r, pos(t.fn, r.Pos())), nLoads, len(funcsWith)
			}
		}
	}
	return "", nLoads, len(funcsWith)
}


// mapOrderIndependent: over root and every function of its package statically
// reachable from it (closures included): no loop that ranges over a map carries
// a floating-point value from one iteration to the next (floating-point
// addition is not associative, Go's map iteration order is random: such a sum
// differs between runs). Integer accumulation is order independent and
// allowed. Returns "" or the first offending loop.
func mapOrderIndependent(root *ssa.Function) (string, int, int) {
	seen := map[*ssa.Function]bool{root: true}
	work := []*ssa.Function{root}
	nLoops, nFuncs := 0, 0
	isFloat := func(t types.Type) bool {
		b, ok := t.Underlying().(*types.Basic)
		return ok && b.Info()&types.IsFloat != 0
	}
	for len(work) > 0 {
		f := work[len(work)-1]
		work = work[:len(work)-1]
		nFuncs++
		for _, b := range f.Blocks {
			mapLoop := false
			for _, ins := range b.Instrs {
				if nx, ok := ins.(*ssa.Next); ok && !nx.IsString {
					if rg, ok := nx.Iter.(*ssa.Range); ok {
						if _, isMap := rg.X.Type().Underlying().(*types.Map); isMap {
							mapLoop = true
						}
					}
				}
				if c, ok := ins.(ssa.CallInstruction); ok {
					if sc := c.Common().StaticCallee(); sc != nil && !seen[sc] && sc.Blocks != nil && sc.Pkg != nil && root.Pkg != nil && sc.Pkg == root.Pkg {
						seen[sc] = true
						work = append(work, sc)
					}
				}
				if mc, ok := ins.(*ssa.MakeClosure); ok {
					if cf, isF := mc.Fn.(*ssa.Function); isF && !seen[cf] && cf.Blocks != nil {
						seen[cf] = true
						work = append(work, cf)
					}
				}
			}
			if !mapLoop {
				continue
			}
			nLoops++
			for _, ins := range b.Instrs {
				phi, ok := ins.(*ssa.Phi)
				if !ok {
					break
				}
				if isFloat(phi.Type()) {
					return fmt.Sprintf("%s accumulates the floating-point value %q over a map iteration (%s)", vc.FuncName(f), phi.Comment, shortPath(f.Prog.Fset.Position(phi.Pos()).String())), nLoops, nFuncs
				}
			}
		}
	}
	return "", nLoops, nFuncs
}
