package main

import (
	"fmt"
	"go/token"
	"go/types"
	"strings"

	"golang.org/x/tools/go/ssa"

	"govc/vc"
)

// ---- SSA helpers for control-flow contracts (frames back end) ----

type edge struct{ from, to *ssa.BasicBlock }

// reachableWithout: is target reachable from the entry when the given edges
// are removed? The search is path-sensitive for comparisons between the same
// two SSA values: a path that takes `x < y` as false cannot afterwards take
// `x >= y` as false (until x or y is redefined, i.e. its defining block is
// entered again). This prunes the infeasible CFG paths that loop-exit tests
// followed by the same test create.
func reachableWithout(fn *ssa.Function, target *ssa.BasicBlock, cut []edge) bool {
	isCut := func(a, b *ssa.BasicBlock) bool {
		for _, e := range cut {
			if e.from == a && e.to == b {
				return true
			}
		}
		return false
	}
	type fact struct {
		x, y ssa.Value
		lt   int // relation knowledge: bitmask of possible {x<y:1, x==y:2, x>y:4}
	}
	type state struct {
		b     *ssa.BasicBlock
		facts string
	}
	defBlock := func(v ssa.Value) *ssa.BasicBlock {
		if in, ok := v.(ssa.Instruction); ok {
			return in.Block()
		}
		return nil
	}
	relMask := func(op token.Token, truth bool) int {
		m := 0
		switch op {
		case token.LSS:
			m = 1
		case token.LEQ:
			m = 3
		case token.EQL:
			m = 2
		case token.NEQ:
			m = 5
		case token.GTR:
			m = 4
		case token.GEQ:
			m = 6
		default:
			return 7
		}
		if !truth {
			m = 7 &^ m
		}
		return m
	}
	encode := func(fs []fact) string {
		var parts []string
		for _, f := range fs {
			parts = append(parts, fmt.Sprintf("%p:%p:%d", f.x, f.y, f.lt))
		}
		sortStrings(parts)
		return strings.Join(parts, ",")
	}
	// only comparisons whose operand pair is tested by at least two branches
	// can correlate; tracking nothing else keeps the search small
	pairCount := map[[2]ssa.Value]int{}
	for _, b := range fn.Blocks {
		if iff, ok := b.Instrs[len(b.Instrs)-1].(*ssa.If); ok {
			c, _ := stripNot(iff.Cond)
			if bo, ok := c.(*ssa.BinOp); ok {
				pairCount[[2]ssa.Value{bo.X, bo.Y}]++
				pairCount[[2]ssa.Value{bo.Y, bo.X}]++
			}
		}
	}
	seen := map[state]bool{}
	type item struct {
		b  *ssa.BasicBlock
		fs []fact
	}
	stack := []item{{fn.Blocks[0], nil}}
	steps := 0
	for len(stack) > 0 {
		it := stack[len(stack)-1]
		stack = stack[:len(stack)-1]
		steps++
		if steps > 2000000 {
			return true // give up: conservatively reachable
		}
		// entering block b invalidates facts about values defined in b
		var fs []fact
		for _, f := range it.fs {
			if defBlock(f.x) == it.b || defBlock(f.y) == it.b {
				continue
			}
			fs = append(fs, f)
		}
		st := state{it.b, encode(fs)}
		if seen[st] {
			continue
		}
		seen[st] = true
		if it.b == target {
			return true
		}
		last := it.b.Instrs[len(it.b.Instrs)-1]
		iff, isIf := last.(*ssa.If)
		for si, s := range it.b.Succs {
			if isCut(it.b, s) {
				continue
			}
			nfs := fs
			if isIf {
				cond, neg := stripNot(iff.Cond)
				if bo, ok := cond.(*ssa.BinOp); ok {
					truth := si == 0
					if neg {
						truth = !truth
					}
					m := relMask(bo.Op, truth)
					if m != 7 && pairCount[[2]ssa.Value{bo.X, bo.Y}] >= 2 {
						x, y := bo.X, bo.Y
						feasible := true
						found := false
						var upd []fact
						for _, f := range fs {
							if f.x == x && f.y == y {
								found = true
								nm := f.lt & m
								if nm == 0 {
									feasible = false
								}
								upd = append(upd, fact{x, y, nm})
							} else if f.x == y && f.y == x {
								found = true
								// swap relation
								sw := 0
								if m&1 != 0 {
									sw |= 4
								}
								if m&2 != 0 {
									sw |= 2
								}
								if m&4 != 0 {
									sw |= 1
								}
								nm := f.lt & sw
								if nm == 0 {
									feasible = false
								}
								upd = append(upd, fact{f.x, f.y, nm})
							} else {
								upd = append(upd, f)
							}
						}
						if !feasible {
							continue
						}
						if !found {
							upd = append(upd, fact{x, y, m})
						}
						nfs = upd
					}
				}
			}
			stack = append(stack, item{s, nfs})
		}
	}
	return false
}

func sortStrings(xs []string) {
	for i := 1; i < len(xs); i++ {
		for j := i; j > 0 && xs[j] < xs[j-1]; j-- {
			xs[j], xs[j-1] = xs[j-1], xs[j]
		}
	}
}

// rootsOf follows a boolean condition back through !, &&/|| phis are not
// followed: returns the value and whether it is negated.
func stripNot(v ssa.Value) (ssa.Value, bool) {
	neg := false
	for {
		u, ok := v.(*ssa.UnOp)
		if !ok || u.Op != token.NOT {
			return v, neg
		}
		neg = !neg
		v = u.X
	}
}

// fieldOfLoad: if v is a load of (or field extract of) a struct field, return the
// struct type name and field name.
func fieldOfLoad(v ssa.Value) (typeName, field string, ok bool) {
	switch x := v.(type) {
	case *ssa.UnOp:
		if x.Op != token.MUL {
			return "", "", false
		}
		if fa, isFA := x.X.(*ssa.FieldAddr); isFA {
			st := fa.X.Type().Underlying().(*types.Pointer).Elem()
			return types.TypeString(st, nil), st.Underlying().(*types.Struct).Field(fa.Field).Name(), true
		}
	case *ssa.Field:
		st := x.X.Type()
		return types.TypeString(st, nil), st.Underlying().(*types.Struct).Field(x.Field).Name(), true
	}
	return "", "", false
}

type guardSpec struct {
	desc string
	// match reports whether the If's condition is this guard and which
	// successor index is the "allowed" one (the path on which the guarded
	// effect may happen).
	match func(cond ssa.Value) (allowedSucc int, ok bool)
}

func guardFieldFalse(typeSuffix, field string) guardSpec {
	return guardSpec{desc: "!" + typeSuffix + "." + field, match: func(c ssa.Value) (int, bool) {
		v, neg := stripNot(c)
		tn, fn, ok := fieldOfLoad(v)
		if !ok || fn != field || !strings.HasSuffix(tn, typeSuffix) {
			return 0, false
		}
		if neg {
			return 0, true // if !x.F {allowed}
		}
		return 1, true // if x.F {skip} else {allowed}
	}}
}

func guardCallTrue(fullName string) guardSpec {
	return guardSpec{desc: fullName + "(...)", match: func(c ssa.Value) (int, bool) {
		v, neg := stripNot(c)
		call, ok := v.(*ssa.Call)
		if !ok {
			return 0, false
		}
		callee := call.Call.StaticCallee()
		if callee == nil || callee.RelString(nil) != fullName {
			return 0, false
		}
		if neg {
			return 1, true // if !f() {skip} else {allowed}
		}
		return 0, true
	}}
}

// guardNotInMapField: cond is the comma-ok of a lookup in a map loaded from field `field`.
func guardNotInMapField(field string) guardSpec {
	return guardSpec{desc: "key not in ." + field, match: func(c ssa.Value) (int, bool) {
		v, neg := stripNot(c)
		ex, ok := v.(*ssa.Extract)
		if !ok || ex.Index != 1 {
			return 0, false
		}
		lk, ok := ex.Tuple.(*ssa.Lookup)
		if !ok || !lk.CommaOk {
			return 0, false
		}
		if _, fn, ok := fieldOfLoad(lk.X); !ok || fn != field {
			return 0, false
		}
		if neg {
			return 0, true
		}
		return 1, true
	}}
}

// guardLenZeroOfField: cond is len(x.field) > 0 (allowed edge: the false one)
// or len(x.field) == 0 (allowed: true one).
func guardLenZeroOfField(field string) guardSpec {
	return guardSpec{desc: "len(." + field + ") == 0", match: func(c ssa.Value) (int, bool) {
		b, ok := c.(*ssa.BinOp)
		if !ok {
			return 0, false
		}
		call, ok := b.X.(*ssa.Call)
		if !ok {
			return 0, false
		}
		if bi, isB := call.Call.Value.(*ssa.Builtin); !isB || bi.Name() != "len" {
			return 0, false
		}
		if _, fn, ok := fieldOfLoad(call.Call.Args[0]); !ok || fn != field {
			return 0, false
		}
		k, isC := b.Y.(*ssa.Const)
		if !isC || k.Int64() != 0 {
			return 0, false
		}
		switch b.Op {
		case token.GTR, token.NEQ:
			return 1, true
		case token.EQL, token.LEQ:
			return 0, true
		}
		return 0, false
	}}
}

// checkGuarded: every path from the entry of fn to block target goes through an
// allowed edge of (one of) the guards in each group. A group is a disjunction:
// cutting the allowed edges of all guards of the group must make target unreachable.
func checkGuarded(fn *ssa.Function, target *ssa.BasicBlock, groups [][]guardSpec) (bool, string) {
	for _, grp := range groups {
		var cut []edge
		var descs []string
		for _, g := range grp {
			descs = append(descs, g.desc)
			for _, b := range fn.Blocks {
				iff, ok := b.Instrs[len(b.Instrs)-1].(*ssa.If)
				if !ok {
					continue
				}
				if idx, ok := g.match(iff.Cond); ok {
					cut = append(cut, edge{b, b.Succs[idx]})
				}
			}
		}
		if len(cut) == 0 {
			return false, fmt.Sprintf("no branch on %s found", strings.Join(descs, " or "))
		}
		if reachableWithout(fn, target, cut) {
			return false, fmt.Sprintf("the effect is reachable on a path that does not pass the guard %s", strings.Join(descs, " or "))
		}
	}
	return true, ""
}

// effect sites

// appendToField: blocks containing `x.field = append(x.field, ...)` (append whose
// first argument is loaded from a field named field).
func appendToFieldSites(fn *ssa.Function, field string) []ssa.Instruction {
	var out []ssa.Instruction
	for _, b := range fn.Blocks {
		for _, ins := range b.Instrs {
			call, ok := ins.(*ssa.Call)
			if !ok {
				continue
			}
			if bi, isB := call.Call.Value.(*ssa.Builtin); !isB || bi.Name() != "append" {
				continue
			}
			if _, f, ok := fieldOfLoad(call.Call.Args[0]); ok && f == field {
				out = append(out, ins)
			}
		}
	}
	return out
}

func mapUpdateOfFieldSites(fn *ssa.Function, field string) []ssa.Instruction {
	var out []ssa.Instruction
	for _, b := range fn.Blocks {
		for _, ins := range b.Instrs {
			mu, ok := ins.(*ssa.MapUpdate)
			if !ok {
				continue
			}
			if _, f, ok := fieldOfLoad(mu.Map); ok && f == field {
				out = append(out, ins)
			}
		}
	}
	return out
}

func callSites(fn *ssa.Function, fullName string) []ssa.Instruction {
	var out []ssa.Instruction
	for _, b := range fn.Blocks {
		for _, ins := range b.Instrs {
			if c, ok := ins.(ssa.CallInstruction); ok {
				if callee := c.Common().StaticCallee(); callee != nil && callee.RelString(nil) == fullName {
					out = append(out, ins)
				}
			}
		}
	}
	return out
}

func guardedResults(eng *vc.Engine, fname, what string, sites []ssa.Instruction, groups [][]guardSpec, expectSites bool) []StructResult {
	fn := eng.Func(fname)
	var out []StructResult
	if fn == nil {
		return []StructResult{{Name: fname + "#guard:" + what, Desc: "function not found", OK: false, Status: "unbound"}}
	}
	if len(sites) == 0 {
		if expectSites {
			out = append(out, StructResult{Name: fname + "#guard:" + what + ":site", Desc: "the effect site " + what + " exists", OK: false, Detail: "no such instruction found (code shape changed)", Status: "unbound"})
		}
		return out
	}
	for i, s := range sites {
		ok, why := checkGuarded(fn, s.Block(), groups)
		var gd []string
		for _, g := range groups {
			var ds []string
			for _, x := range g {
				ds = append(ds, x.desc)
			}
			gd = append(gd, strings.Join(ds, " or "))
		}
		out = append(out, StructResult{Name: fmt.Sprintf("%s#guard:%s@%d", fname, what, i+1), Desc: what + " only on paths where " + strings.Join(gd, "; "), OK: ok, Detail: why})
	}
	return out
}

const (
	fnSearch  = "index.(*indexData).Search"
	fnList    = "index.(*indexData).List"
	hasAccess = "github.com/sourcegraph/zoekt/internal/tenant.HasAccess"
	addRepoFn = "github.com/sourcegraph/zoekt/index.addRepo"
)

func liveAndAccessible() [][]guardSpec {
	return [][]guardSpec{
		{guardFieldFalse("zoekt.Repository", "Tombstone")},
		{guardCallTrue(hasAccess)},
	}
}

func init() {
	// C17/C23/C13: a file match is appended only for a live, accessible document whose path is not tombstoned
	structChecks["search-file-guards"] = func(eng *vc.Engine) []StructResult {
		fn := eng.Func(fnSearch)
		if fn == nil {
			return []StructResult{{Name: fnSearch + "#guard", OK: false, Status: "unbound", Desc: "function not found"}}
		}
		g := append(liveAndAccessible(), []guardSpec{guardNotInMapField("FileTombstones"), guardLenZeroOfField("FileTombstones")})
		return guardedResults(eng, fnSearch, "append(res.Files)", appendToFieldSites(fn, "Files"), g, true)
	}
	// C23/C17: repository names and URL templates are published only for live, accessible repositories
	structChecks["search-addrepo-guards"] = func(eng *vc.Engine) []StructResult {
		fn := eng.Func(fnSearch)
		if fn == nil {
			return []StructResult{{Name: fnSearch + "#guard", OK: false, Status: "unbound", Desc: "function not found"}}
		}
		return guardedResults(eng, fnSearch, "addRepo(res, repo)", callSites(fn, addRepoFn), liveAndAccessible(), true)
	}
	// C17/C23: listing
	structChecks["list-guards"] = func(eng *vc.Engine) []StructResult {
		fn := eng.Func(fnList)
		if fn == nil {
			return []StructResult{{Name: fnList + "#guard", OK: false, Status: "unbound", Desc: "function not found"}}
		}
		var out []StructResult
		out = append(out, guardedResults(eng, fnList, "append(l.Repos)", appendToFieldSites(fn, "Repos"), liveAndAccessible(), true)...)
		out = append(out, guardedResults(eng, fnList, "l.ReposMap[id]=", mapUpdateOfFieldSites(fn, "ReposMap"), liveAndAccessible(), true)...)
		out = append(out, guardedResults(eng, fnList, "l.Stats.Add", callSites(fn, "(*github.com/sourcegraph/zoekt.RepoStats).Add"), liveAndAccessible(), true)...)
		return out
	}
}

// ---- the document that passed the guards is the document that is reported ----

func stripConv(v ssa.Value) ssa.Value {
	for {
		switch x := v.(type) {
		case *ssa.Convert:
			v = x.X
		case *ssa.ChangeType:
			v = x.X
		case *ssa.Phi:
			// a phi all of whose operands are the same value (ignoring itself)
			var only ssa.Value
			same := true
			for _, e := range x.Edges {
				if e == x {
					continue
				}
				if only == nil {
					only = e
				} else if only != e {
					same = false
				}
			}
			if !same || only == nil {
				return v
			}
			v = only
		default:
			return v
		}
	}
}

// docOfTombstoneGuard finds the If on x.Tombstone where x = &d.repoMetaData[d.repos[DOC]] and returns DOC.
func docOfTombstoneGuard(fn *ssa.Function) ssa.Value {
	for _, b := range fn.Blocks {
		iff, ok := b.Instrs[len(b.Instrs)-1].(*ssa.If)
		if !ok {
			continue
		}
		c, _ := stripNot(iff.Cond)
		ld, ok := c.(*ssa.UnOp)
		if !ok || ld.Op != token.MUL {
			continue
		}
		fa, ok := ld.X.(*ssa.FieldAddr)
		if !ok {
			continue
		}
		st := fa.X.Type().Underlying().(*types.Pointer).Elem()
		if st.Underlying().(*types.Struct).Field(fa.Field).Name() != "Tombstone" {
			continue
		}
		ia, ok := fa.X.(*ssa.IndexAddr) // &d.repoMetaData[repoID]
		if !ok {
			continue
		}
		rid, ok := stripConv(ia.Index).(*ssa.UnOp) // repoID := d.repos[DOC]
		if !ok || rid.Op != token.MUL {
			continue
		}
		ria, ok := rid.X.(*ssa.IndexAddr)
		if !ok {
			continue
		}
		if _, f, ok := fieldOfLoad(ria.X); !ok || f != "repos" {
			continue
		}
		return stripConv(ria.Index)
	}
	return nil
}

func init() {
	structChecks["search-doc-identity"] = func(eng *vc.Engine) []StructResult {
		fn := eng.Func(fnSearch)
		if fn == nil {
			return []StructResult{{Name: fnSearch + "#samedoc", OK: false, Status: "unbound", Desc: "function not found"}}
		}
		doc := docOfTombstoneGuard(fn)
		if doc == nil {
			return []StructResult{{Name: fnSearch + "#samedoc:guard", OK: false, Desc: "the tombstone guard tests d.repoMetaData[d.repos[doc]]", Detail: "guard of that shape not found"}}
		}
		var out []StructResult
		for _, callee := range []string{"(*github.com/sourcegraph/zoekt/index.indexData).gatherMatches", "(*github.com/sourcegraph/zoekt/index.indexData).fileName", "(*github.com/sourcegraph/zoekt/index.contentProvider).setDocument", "(*github.com/sourcegraph/zoekt/index.indexData).gatherBranches"} {
			sites := callSites(fn, callee)
			short := callee[strings.LastIndex(callee, ".")+1:]
			if len(sites) == 0 {
				out = append(out, StructResult{Name: fnSearch + "#samedoc:" + short, OK: false, Status: "unbound", Desc: "call to " + short + " exists", Detail: "no call found"})
				continue
			}
			for i, s := range sites {
				args := s.(ssa.CallInstruction).Common().Args
				ok := len(args) >= 2 && stripConv(args[1]) == doc
				out = append(out, StructResult{Name: fmt.Sprintf("%s#samedoc:%s@%d", fnSearch, short, i+1), OK: ok, Desc: "the document passed to " + short + " is the SSA value tested by the tombstone/tenant guards", Detail: "document argument is a different value than the guarded one"})
			}
		}
		return out
	}
}
