package main

import (
	"fmt"
	"go/types"
	"sort"
	"strings"

	"golang.org/x/tools/go/ssa"
	"golang.org/x/tools/go/ssa/ssautil"

	"govc/vc"
)

// qtoproto-exhaustive (C07/C24): every concrete type that some function of
// package query converts to the interface query.Q has a case in QToProto's
// type switch (or is a declared exception). The set of constructed types is
// recomputed from the SSA on every run, so a query node added later without a
// wire case fails an obligation named after the type.
func init() {
	structChecks["qtoproto-exhaustive"] = func(eng *vc.Engine) []StructResult {
		fn := eng.Func("query.QToProto")
		if fn == nil {
			return []StructResult{{Name: "query.QToProto#exhaustive", OK: false, Status: "unbound", Desc: "function not found"}}
		}
		// cases of the type switch: TypeAssert instructions on the parameter
		handled := map[string]bool{}
		for _, b := range fn.Blocks {
			for _, ins := range b.Instrs {
				if ta, ok := ins.(*ssa.TypeAssert); ok && ta.X == fn.Params[0] {
					handled[types.TypeString(ta.AssertedType, nil)] = true
				}
			}
		}
		qIface := fn.Params[0].Type()
		constructed := map[string]string{} // type -> a function constructing it
		for f := range ssautil.AllFunctions(eng.Prog) {
			if f.Pkg == nil || f.Pkg != fn.Pkg || strings.HasSuffix(eng.Prog.Fset.Position(f.Pos()).Filename, "_test.go") {
				continue
			}
			for _, b := range f.Blocks {
				for _, ins := range b.Instrs {
					mi, ok := ins.(*ssa.MakeInterface)
					if !ok || !types.Identical(mi.Type(), qIface) {
						continue
					}
					ts := types.TypeString(mi.X.Type(), nil)
					if _, seen := constructed[ts]; !seen {
						constructed[ts] = vc.FuncName(f)
					}
				}
			}
		}
		// declared exception, with reason (kept next to the check on purpose)
		exceptions := map[string]string{
			"*github.com/sourcegraph/zoekt/query.caseQ":      "case: scope marker; parseExprList lifts it into the enclosing group and, since the fix for '-case:', parseExpr refuses to wrap it in a Not",
			"*github.com/sourcegraph/zoekt/query.caseScopeQ": "parse-time scope wrapper; removed by stripCaseScopes before Parse returns",
			"*github.com/sourcegraph/zoekt/query.orOperator": "parse-time token for 'or'; consumed by parseOperators",
		}
		var names []string
		for t := range constructed {
			names = append(names, t)
		}
		sort.Strings(names)
		var out []StructResult
		for _, t := range names {
			short := t[strings.LastIndex(t, "/")+1:]
			if strings.HasPrefix(t, "*") {
				short = "*" + short
			}
			if why, ok := exceptions[t]; ok {
				out = append(out, StructResult{Name: "query.QToProto#exhaustive:" + short, Desc: "declared exception: " + why, OK: true, Status: "exception"})
				continue
			}
			out = append(out, StructResult{Name: "query.QToProto#exhaustive:" + short, Desc: fmt.Sprintf("query node type %s (constructed e.g. in %s) has a case in QToProto", short, constructed[t]), OK: handled[t], Detail: "no case for this type: QToProto panics on it"})
		}
		if len(out) == 0 {
			out = append(out, StructResult{Name: "query.QToProto#exhaustive:none", OK: false, Status: "unbound", Desc: "no constructed query node types found"})
		}
		return out
	}
}
