package main

import (
	"fmt"
	"go/token"

	"golang.org/x/tools/go/ssa"

	"govc/vc"
)

// ---- ordering contracts on effects (frames back end) ----

func reachableFrom(start *ssa.BasicBlock, target *ssa.BasicBlock) bool {
	seen := map[*ssa.BasicBlock]bool{}
	stack := []*ssa.BasicBlock{start}
	for len(stack) > 0 {
		b := stack[len(stack)-1]
		stack = stack[:len(stack)-1]
		if seen[b] {
			continue
		}
		seen[b] = true
		if b == target {
			return true
		}
		stack = append(stack, b.Succs...)
	}
	return false
}

// instrReachableFromInstr: can execution continue from just after `from` to `to`?
func instrReachableFromInstr(from, to ssa.Instruction) bool {
	fb, tb := from.Block(), to.Block()
	if fb == tb {
		fi, ti := -1, -1
		for i, in := range fb.Instrs {
			if in == from {
				fi = i
			}
			if in == to {
				ti = i
			}
		}
		if ti > fi {
			return true
		}
	}
	for _, s := range fb.Succs {
		if reachableFrom(s, tb) {
			return true
		}
	}
	return false
}

// errFailureEdges finds, for a call returning an error, the CFG edges taken
// when that error is non-nil (tests of the form `err != nil` / `err == nil`
// on the call's error result).
func errFailureEdges(call ssa.CallInstruction) []edge {
	v, ok := call.(ssa.Value)
	if !ok {
		return nil
	}
	var errVals []ssa.Value
	if refs := v.Referrers(); refs != nil {
		for _, r := range *refs {
			if ex, isEx := r.(*ssa.Extract); isEx {
				errVals = append(errVals, ex)
			}
		}
	}
	errVals = append(errVals, v)
	var out []edge
	for _, ev := range errVals {
		refs := ev.Referrers()
		if refs == nil {
			continue
		}
		for _, r := range *refs {
			cmp, isCmp := r.(*ssa.BinOp)
			if !isCmp || (cmp.Op != token.NEQ && cmp.Op != token.EQL) {
				continue
			}
			other := cmp.Y
			if cmp.Y == ev {
				other = cmp.X
			}
			if c, isC := other.(*ssa.Const); !isC || c.Value != nil {
				continue
			}
			crefs := cmp.Referrers()
			if crefs == nil {
				continue
			}
			for _, cr := range *crefs {
				iff, isIf := cr.(*ssa.If)
				if !isIf {
					continue
				}
				b := iff.Block()
				if cmp.Op == token.NEQ {
					out = append(out, edge{b, b.Succs[0]})
				} else {
					out = append(out, edge{b, b.Succs[1]})
				}
			}
		}
	}
	return out
}

func staticCalls(fn *ssa.Function, fullName string) []ssa.CallInstruction {
	var out []ssa.CallInstruction
	for _, s := range callSites(fn, fullName) {
		out = append(out, s.(ssa.CallInstruction))
	}
	return out
}

// orderResults checks, in function fname:
//   - never `later` after `earlier` failed: from every failure edge of an
//     `earlier` call no `later` call is reachable;
//   - never `earlier` after `later`: no `earlier` call is reachable from a `later` call.
func orderResults(eng *vc.Engine, fname, earlier, later, what string) []StructResult {
	fn := eng.Func(fname)
	if fn == nil {
		return []StructResult{{Name: fname + "#order:" + what, OK: false, Status: "unbound", Desc: "function not found"}}
	}
	es, ls := staticCalls(fn, earlier), staticCalls(fn, later)
	var out []StructResult
	if len(es) == 0 || len(ls) == 0 {
		return []StructResult{{Name: fname + "#order:" + what + ":sites", OK: false, Status: "unbound", Desc: "calls to " + earlier + " and " + later + " exist", Detail: fmt.Sprintf("%d / %d call sites found", len(es), len(ls))}}
	}
	ok1, ok2 := true, true
	d1, d2 := "", ""
	for _, e := range es {
		fe := errFailureEdges(e)
		if len(fe) == 0 {
			ok1, d1 = false, "the error result of "+earlier+" is not tested"
		}
		for _, ed := range fe {
			for _, l := range ls {
				if reachableFrom(ed.to, l.Block()) {
					ok1, d1 = false, later+" is reachable after "+earlier+" returned an error"
				}
			}
		}
		for _, l := range ls {
			if instrReachableFromInstr(l, e) {
				ok2, d2 = false, earlier+" is reachable after "+later
			}
		}
	}
	out = append(out, StructResult{Name: fname + "#order:" + what + ":no-" + shortFn(later) + "-after-failed-" + shortFn(earlier), Desc: later + " is never reached once " + earlier + " has failed", OK: ok1, Detail: d1})
	out = append(out, StructResult{Name: fname + "#order:" + what + ":no-" + shortFn(earlier) + "-after-" + shortFn(later), Desc: earlier + " is never executed after " + later, OK: ok2, Detail: d2})
	return out
}

func shortFn(full string) string {
	for i := len(full) - 1; i >= 0; i-- {
		if full[i] == '/' {
			return full[i+1:]
		}
	}
	return full
}

func init() {
	// C35: zoekt-merge-index merge: Merge -> Remove* -> Rename
	structChecks["mergecmd-order"] = func(eng *vc.Engine) []StructResult {
		var out []StructResult
		out = append(out, orderResults(eng, "main.merge", "github.com/sourcegraph/zoekt/index.Merge", "os.Remove", "merge-before-remove")...)
		out = append(out, orderResults(eng, "main.merge", "os.Remove", "os.Rename", "remove-before-rename")...)
		return out
	}
}
