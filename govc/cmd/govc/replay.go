package main

import "govc/vc"

// tryReplay attempts to turn a failed obligation into a failing run of the
// real code. It returns whether a failing input was confirmed and the path of
// the replay file.
func tryReplay(eng *vc.Engine, prop, obl, query, dir string) (bool, string) {
	return false, ""
}
