package main

import (
	"context"
	"encoding/json"
	"fmt"
	"go/types"
	"os"
	"os/exec"
	"path/filepath"
	"strings"
	"time"

	"govc/vc"
)

// tryReplay attempts to turn a failed obligation into a failing run of the
// real code: it relaxes the query (Int quantifiers expanded over a small
// range, location axioms dropped, slices bounded), asks z3 for a model of the
// entry state, turns the parameters into Go literals, and runs the real
// function in an in-package test injected with `go test -overlay` (nothing is
// written to /repo). Safety obligations are confirmed by a panic, termination
// obligations by a timeout. It returns whether a failing input was confirmed
// and the path of the replay file (a Go test).
func tryReplay(o *vc.Obligation, prop, dir string) (bool, string) {
	if o == nil || o.ExpectSat {
		return false, ""
	}
	safety := map[string]bool{"bounds": true, "nil": true, "div": true, "panic": true, "makeslice": true, "typeassert": true, "decreases": true}
	if !safety[o.Kind] {
		return false, ""
	}
	v := o.VC()
	tgt := v.ReplayTarget()
	if !tgt.OK {
		return false, ""
	}
	terms, bounds := v.ReifyPlan()
	var gv []string
	for _, t := range terms {
		gv = append(gv, t.Term)
	}
	tmp, err := os.MkdirTemp("", "govc-replay")
	if err != nil {
		return false, ""
	}
	defer os.RemoveAll(tmp)
	qf := filepath.Join(tmp, "relaxed.smt2")
	// first look for a counterexample in the first iteration of every loop
	// (loop-head state == entry state): such a model is a genuine input; then
	// without that restriction (the model is then a state, which may not replay)
	var s, q string
	for attempt := 0; attempt < 2; attempt++ {
		extra := append([]string{}, bounds...)
		if attempt == 0 {
			if len(v.FirstIter) == 0 {
				continue
			}
			extra = append(extra, v.FirstIter...)
		}
		q, err = vc.RelaxQuery(o.Query(), vc.ReifyBound+1, extra, gv)
		if err != nil {
			return false, ""
		}
		os.WriteFile(qf, []byte(q), 0o644)
		ctx, cancel := context.WithTimeout(context.Background(), 40*time.Second)
		out, _ := exec.CommandContext(ctx, "z3-new", "-T:30", "-smt2", qf).CombinedOutput()
		cancel()
		s = strings.TrimSpace(string(out))
		if dbg := os.Getenv("GOVC_DEBUG_REPLAY"); dbg != "" {
			os.MkdirAll(dbg, 0o755)
			os.WriteFile(filepath.Join(dbg, fmt.Sprintf("%s.attempt%d.smt2", sanitizeName(o.Name), attempt)), []byte(q), 0o644)
			fmt.Fprintf(os.Stderr, "replay %s attempt %d: %.40s\n", o.Name, attempt, s)
		}
		if strings.HasPrefix(s, "sat") {
			break
		}
	}
	if dbg := os.Getenv("GOVC_DEBUG_REPLAY"); dbg != "" {
		os.MkdirAll(dbg, 0o755)
		os.WriteFile(filepath.Join(dbg, sanitizeName(o.Name)+".relaxed.smt2"), []byte(q), 0o644)
		fmt.Fprintf(os.Stderr, "replay %s: solver says %.200s\n", o.Name, s)
	}
	if !strings.HasPrefix(s, "sat") {
		return false, ""
	}
	vals := parseGetValueOut(s[3:])
	if len(vals) < len(terms) {
		return false, ""
	}
	model := vc.Model{}
	for i, t := range terms {
		model[t.Name] = vals[i]
	}
	// build the test
	fn := v.Fn
	qual := func(p *types.Package) string {
		if p.Path() == tgt.PkgPath {
			return ""
		}
		return p.Name()
	}
	imports := map[string]string{}
	var collect func(t types.Type, depth int)
	collect = func(t types.Type, depth int) {
		if depth > 6 || t == nil {
			return
		}
		switch u := t.(type) {
		case *types.Named:
			if p := u.Obj().Pkg(); p != nil && p.Path() != tgt.PkgPath {
				imports[p.Path()] = p.Name()
			}
		case *types.Pointer:
			collect(u.Elem(), depth+1)
		case *types.Slice:
			collect(u.Elem(), depth+1)
		}
	}
	var args []string
	recv := ""
	for i, p := range fn.Params {
		collect(p.Type(), 0)
		lit := v.GoLiteral(model, p.Type(), p.Name(), qual, 0)
		if i == 0 && fn.Signature.Recv() != nil {
			recv = lit
			continue
		}
		args = append(args, lit)
	}
	// literals of nested foreign struct types may need imports too; keep it simple: scan text
	var call string
	if recv != "" {
		call = fmt.Sprintf(tgt.CallExpr, recv, strings.Join(args, ", "))
	} else {
		call = fmt.Sprintf(tgt.CallExpr, strings.Join(args, ", "))
	}
	// dynamic types of interface-typed values may come from any package the
	// target imports
	if fn.Pkg != nil {
		for _, ip := range fn.Pkg.Pkg.Imports() {
			if _, ok := imports[ip.Path()]; !ok {
				imports[ip.Path()] = ip.Name()
			}
		}
	}
	var imp strings.Builder
	for path, name := range imports {
		if strings.Contains(call, name+".") {
			fmt.Fprintf(&imp, "\t%s %q\n", name, path)
		}
	}
	mj, _ := json.MarshalIndent(model, "// ", " ")
	src := fmt.Sprintf(`package %s

// Replay of a verifier counterexample for property %s.
// Failed obligation: %s
// Clause: %s
// Model of the entry state (relaxed query, bounded sizes):
// %s

import (
	"fmt"
	"testing"
	"time"
%s)

func TestVerifReplay(t *testing.T) {
	done := make(chan string, 1)
	go func() {
		defer func() {
			if r := recover(); r != nil {
				done <- fmt.Sprintf("PANIC: %%v", r)
			}
		}()
		%s
		done <- "RETURNED"
	}()
	select {
	case s := <-done:
		fmt.Println("VERIF-REPLAY:", s)
	case <-time.After(3 * time.Second):
		fmt.Println("VERIF-REPLAY: TIMEOUT")
	}
}
`, tgt.PkgName, prop, o.Name, strings.ReplaceAll(o.Desc, "\n", " "), string(mj), imp.String(), discardCall(call, tgt.NResults))
	testFile := filepath.Join(tmp, "zz_verif_replay_test.go")
	os.WriteFile(testFile, []byte(src), 0o644)
	ov := map[string]interface{}{"Replace": map[string]string{filepath.Join(tgt.Dir, "zz_verif_replay_test.go"): testFile}}
	ovb, _ := json.Marshal(ov)
	ovf := filepath.Join(tmp, "overlay.json")
	os.WriteFile(ovf, ovb, 0o644)
	ctx2, cancel2 := context.WithTimeout(context.Background(), 180*time.Second)
	defer cancel2()
	cmd := exec.CommandContext(ctx2, "bash", "-c", fmt.Sprintf("ulimit -v 12000000; cd %q && go test -mod=mod -overlay %q -vet=off -v -count=1 -timeout 60s -run '^TestVerifReplay$' .", tgt.Dir, ovf))
	cmd.Env = append(os.Environ(), "GOFLAGS=-mod=mod", "GOPROXY=off")
	tout, _ := cmd.CombinedOutput()
	verdict := ""
	for _, ln := range strings.Split(string(tout), "\n") {
		if i := strings.Index(ln, "VERIF-REPLAY:"); i >= 0 {
			verdict = strings.TrimSpace(ln[i+len("VERIF-REPLAY:"):])
		}
	}
	if verdict == "" && (strings.Contains(string(tout), "fatal error") || strings.Contains(string(tout), "out of memory") || strings.Contains(string(tout), "signal: killed")) {
		verdict = "CRASHED: " + firstLine(string(tout))
	}
	if dbg := os.Getenv("GOVC_DEBUG_REPLAY"); dbg != "" {
		os.WriteFile(filepath.Join(dbg, sanitizeName(o.Name)+"_test.go.txt"), []byte(src), 0o644)
		fmt.Fprintf(os.Stderr, "replay %s: verdict=%q output=%.600s\n", o.Name, verdict, string(tout))
	}
	confirmed := false
	switch {
	case o.Kind == "decreases":
		confirmed = strings.HasPrefix(verdict, "TIMEOUT") || strings.HasPrefix(verdict, "CRASHED") || strings.HasPrefix(verdict, "PANIC")
	default:
		confirmed = strings.HasPrefix(verdict, "CRASHED") || (strings.HasPrefix(verdict, "PANIC") && panicMatchesKind(o.Kind, verdict))
	}
	if !confirmed {
		return false, ""
	}
	os.MkdirAll(dir, 0o755)
	rp := filepath.Join(dir, sanitizeName(o.Name)+"_replay_test.go.txt")
	hdr := fmt.Sprintf("// RESULT ON THE REAL CODE: %s\n// re-run: copy this file to %s/zz_verif_replay_test.go (or use go test -overlay) and run\n//   cd %s && go test -mod=mod -vet=off -count=1 -run '^TestVerifReplay$' .\n\n", verdict, tgt.Dir, tgt.Dir)
	os.WriteFile(rp, []byte(hdr+src), 0o644)
	return true, rp
}

func firstLine(s string) string {
	for _, ln := range strings.Split(s, "\n") {
		if strings.TrimSpace(ln) != "" {
			return strings.TrimSpace(ln)
		}
	}
	return ""
}

func discardCall(call string, n int) string {
	if n == 0 {
		return call
	}
	blanks := make([]string, n)
	for i := range blanks {
		blanks[i] = "_"
	}
	return strings.Join(blanks, ", ") + " = " + call
}

// parseGetValueOut extracts the values of "((t v) (t v) ...)".
func parseGetValueOut(s string) []string {
	forms, err := vc.ParseSx(s)
	if err != nil || len(forms) == 0 || !forms[0].IsL {
		return nil
	}
	var out []string
	for _, p := range forms[0].List {
		if p.IsL && len(p.List) == 2 {
			out = append(out, p.List[1].String())
		}
	}
	return out
}

// panicMatchesKind tells whether the run-time panic observed on the real code
// is the failure the obligation is about (a different panic on the same input
// may predate the change under test, e.g. inside a trusted callee, and does
// not confirm this obligation).
func panicMatchesKind(kind, verdict string) bool {
	has := func(ss ...string) bool {
		for _, s := range ss {
			if strings.Contains(verdict, s) {
				return true
			}
		}
		return false
	}
	switch kind {
	case "bounds":
		return has("out of range")
	case "nil":
		return has("nil pointer dereference", "nil map")
	case "div":
		return has("divide by zero")
	case "makeslice":
		return has("makeslice", "out of range", "out of memory")
	case "typeassert":
		return has("interface conversion")
	}
	return true
}
