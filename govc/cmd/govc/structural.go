package main

import (
	"fmt"
	"sort"
	"time"

	"govc/vc"
)

// StructResult is one obligation decided by govc's own SSA analyses (the
// "frames" back end): reads/assigns frames, dominance, exhaustiveness,
// generated per-field postconditions.
type StructResult struct {
	Name    string
	Desc    string
	OK      bool
	Status  string
	Detail  string
	Seconds float64
}

type structCheck func(eng *vc.Engine) []StructResult

var structChecks = map[string]structCheck{}

func runStructural(eng *vc.Engine, names []string) []StructResult {
	var out []StructResult
	for _, n := range names {
		c, ok := structChecks[n]
		if !ok {
			out = append(out, StructResult{Name: "structural:" + n, Desc: "unknown structural check", OK: false, Status: "error", Detail: "no such check registered"})
			continue
		}
		t0 := time.Now()
		rs := c(eng)
		d := time.Since(t0).Seconds()
		for i := range rs {
			rs[i].Seconds = d / float64(len(rs))
			if rs[i].Status == "" {
				if rs[i].OK {
					rs[i].Status = "holds"
				} else {
					rs[i].Status = "fails"
				}
			}
		}
		sort.Slice(rs, func(i, j int) bool { return rs[i].Name < rs[j].Name })
		out = append(out, rs...)
	}
	return out
}

func sres(name, desc string, ok bool, detail string, a ...interface{}) StructResult {
	return StructResult{Name: name, Desc: desc, OK: ok, Detail: fmt.Sprintf(detail, a...)}
}
