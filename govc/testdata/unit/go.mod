module unit

go 1.25.9
