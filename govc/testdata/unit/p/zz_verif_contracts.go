//go:build verif

package p

//@ func p.ins1
//@   requires 0 <= i && i <= len(s) && a <= b
//@   requires forall k int :: 0 <= k && k < len(s) ==> s[k].Start <= s[k].End
//@   ensures len(result) == len(s) + 1
//@   ensures result[i].Start == a && result[i].End == b
//@   ensures forall k int :: 0 <= k && k < i ==> result[k].Start == old(s[k].Start)
//@   ensures forall k int :: i < k && k < len(result) ==> result[k].End == old(s[k-1].End)
//@   ensures forall k int :: 0 <= k && k < len(result) ==> result[k].Start <= result[k].End

//@ func p.app1
//@   ensures len(result) == len(s) + 1 && result[len(s)] == v
//@   ensures forall k int :: 0 <= k && k < len(s) ==> result[k] == old(s[k])

//@ func p.appN
//@   ensures len(result) == len(s) + len(t)
//@   ensures forall k int :: 0 <= k && k < len(s) ==> result[k].Start == old(s[k].Start) && result[k].End == old(s[k].End)
//@   ensures forall k int :: 0 <= k && k < len(t) ==> result[len(s)+k].Start == old(t[k].Start) && result[len(s)+k].End == old(t[k].End)

//@ func p.cp
//@   ensures result == min(len(dst), len(src))
//@   ensures forall k int :: 0 <= k && k < result ==> dst[k].Start == old(src[k].Start) && dst[k].End == old(src[k].End)
//@   ensures forall k int :: result <= k && k < len(dst) ==> dst[k].Start == old(dst[k].Start)

//@ func p.badIns
//@   requires 0 <= i && i < len(s)
//@   ensures result[i+1].Start == a
