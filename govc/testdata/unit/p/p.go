package p

import "slices"

type Sec struct{ Start, End uint32 }

func ins1(s []Sec, i int, a, b uint32) []Sec {
	return slices.Insert(s, i, Sec{Start: a, End: b})
}

func app1(s []uint32, v uint32) []uint32 {
	return append(s, v)
}

func appN(s, t []Sec) []Sec {
	return append(s, t...)
}

func cp(dst, src []Sec) int {
	return copy(dst, src)
}

// badIns is wrong on purpose: the contract claims the inserted element lands at i+1.
func badIns(s []Sec, i int, a, b uint32) []Sec {
	return slices.Insert(s, i, Sec{Start: a, End: b})
}
