package vc

import (
	"fmt"
	"path/filepath"
	"sort"
	"strings"

	"golang.org/x/tools/go/ssa"
)

// VerifyLemma generates the single obligation of a lemma declared in a
// contract file: the formula must follow from the definitions of the pure spec
// functions and the axioms of that package, in an arbitrary well-formed heap.
func (e *Engine) VerifyLemma(name string) (*VC, error) {
	lm := e.Spec.Lemmas[name]
	if lm == nil {
		return nil, fmt.Errorf("lemma %s not found", name)
	}
	// a function of the lemma's package gives the scope for type names
	dir := filepath.Dir(lm.File)
	var cands []string
	for n, fn := range e.funcs {
		if fn.Pkg == nil || fn.Blocks == nil || fn.Parent() != nil {
			continue
		}
		if filepath.Dir(e.Prog.Fset.Position(fn.Pos()).Filename) == dir {
			cands = append(cands, n)
		}
	}
	if len(cands) == 0 {
		return nil, fmt.Errorf("lemma %s: package of %s is not loaded", name, lm.File)
	}
	sort.Strings(cands)
	fn := e.funcs[cands[0]]
	spec := &FuncSpec{Name: "lemma:" + name, Loops: map[int]*LoopSpec{}, Flags: map[string]string{}, Requires: []*Clause{{Kind: "requires", Text: lm.Text}}}
	vc := e.NewVC(fn, spec)
	vc.LemmaOf = fn.Pkg.Pkg.Name() + ".lemma"
	st := &State{H: map[string]string{}, Top: "top_0"}
	vc.declare("top_0", "Int")
	vc.assert("(>= top_0 1000000)")
	for _, s := range HeapSorts {
		st.H[s] = "H_" + s + "_0"
		vc.declare(st.H[s], "(Array Loc "+s+")")
	}
	vc.Entry = st
	vc.preregisterMaps(fn, 0, map[*ssa.Function]bool{})
	for _, k := range vc.extraOrder {
		st.H[k] = k + "_0"
	}
	vc.assertHeapWF(st, nil)
	env := &Env{vc: vc, st: st, old: st, vars: map[string]Val{}, fn: fn, specFile: lm.File}
	for _, ax := range e.Spec.Axioms {
		if !vc.axiomRelevant(ax) {
			continue
		}
		t := vc.evalSpec(env, ax.Expr)
		vc.assert(t.T)
		vc.note("axiom %s (%s:%d): %s", ax.Name, strings.TrimPrefix(ax.File, "/repo/"), ax.Line, ax.Text)
	}
	g := vc.evalSpec(env, lm.Expr)
	vc.flushSortDecls()
	vc.oblige("lemma", name, "true", g.T, fmt.Sprintf("%s:%d", strings.TrimPrefix(lm.File, "/repo/"), lm.Line), lm.Text)
	return vc, nil
}
