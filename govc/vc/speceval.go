package vc

import (
	"math/big"
	"strconv"
	"fmt"
	"go/types"
	"strings"

	"golang.org/x/tools/go/ssa"
)

// Env is the evaluation context of a spec expression.
type Env struct {
	vc      *VC
	st      *State // current heap
	old     *State // heap at function entry
	vars    map[string]Val
	bound   map[string]Val // quantifier variables and spec-function parameters (shadow everything)
	lookup  func(name string) (Val, bool)
	outer   func(name string) (Val, bool) // value of a variable at the head of the enclosing loop
	fn      *ssa.Function // for resolving type names
	depth   int
	results []Val
	inOld   bool
	now     *State // the current state while evaluating inside old()
	specFile string // contract file of the clause being evaluated (for type names)
	visLoc, visHeap string // ghost visited set of the enclosing range-over-map loop
	addrOf func(name string) (Val, bool) // address of a cell-backed local variable
	callArgs []Val // arguments of the call an assertion is anchored at (arg(k))
	allocLo string // allocated(x) additionally requires rt(x) > allocLo (objects allocated by one call)
}

func (e *Env) clone() *Env {
	n := *e
	n.vars = map[string]Val{}
	for k, v := range e.vars {
		n.vars[k] = v
	}
	n.bound = map[string]Val{}
	for k, v := range e.bound {
		n.bound[k] = v
	}
	return &n
}

func (e *Env) setResults(fn *ssa.Function, res Val) {
	sig := fn.Signature.Results()
	var vals []Val
	switch sig.Len() {
	case 0:
	case 1:
		vals = []Val{res}
	default:
		vals = res.Tuple
	}
	e.results = vals
	for i := 0; i < sig.Len() && i < len(vals); i++ {
		if n := sig.At(i).Name(); n != "" && n != "_" {
			e.vars[n] = vals[i]
		}
		e.vars[fmt.Sprintf("result%d", i)] = vals[i]
	}
	if len(vals) == 1 {
		e.vars["result"] = vals[0]
	}
}

// baseEnv is the environment inside frame f at state st.
func (f *frame) baseEnv(st *State) *Env {
	env := &Env{vc: f.vc, st: st, old: f.entry, vars: map[string]Val{}, fn: f.fn}
	for _, p := range f.fn.Params {
		if v, ok := f.vals[p]; ok {
			env.vars[p.Name()] = v
		}
	}
	for _, fv := range f.fn.FreeVars {
		if v, ok := f.vals[fv]; ok {
			// free variables are pointers to the captured variable
			env.vars["&"+fv.Name()] = v
		}
	}
	if f.spec != nil {
		env.specFile = f.spec.File
	}
	env.addrOf = func(name string) (Val, bool) {
		for _, b := range f.fn.Blocks {
			for _, ins := range b.Instrs {
				if a, ok := ins.(*ssa.Alloc); ok && a.Comment == name {
					if v, done := f.vals[a]; done {
						return Val{T: v.T, Typ: a.Type()}, true
					}
				}
			}
		}
		return Val{}, false
	}
	if f.top && f.spec != nil {
		// let-bound names denote entry-state values
		for _, l := range f.spec.Lets {
			le := env.clone()
			le.st = f.entry
			env.vars[l.Kind] = f.vc.evalSpec(le, l.Expr)
		}
	}
	return env
}

// calleeEnv binds a callee's parameter names to argument values.
func (vc *VC) calleeEnv(callee *ssa.Function, args []Val, st, old *State) *Env {
	env := &Env{vc: vc, st: st, old: old, vars: map[string]Val{}, fn: callee}
	for i, p := range callee.Params {
		if i < len(args) {
			a := args[i]
			a.Typ = p.Type()
			env.vars[p.Name()] = a
		}
	}
	return env
}

// lookupVar resolves a source-level local variable name at block b.
func (f *frame) lookupVar(name string, at *ssa.BasicBlock, st *State) (Val, bool) {
	return f.lookupVarAt(name, at, nil, st)
}

// lookupVarAt resolves a source-level variable at a program point: the start
// of block at (before == nil) or just before instruction `before` of block at.
func (f *frame) lookupVarAt(name string, at *ssa.BasicBlock, before ssa.Instruction, st *State) (Val, bool) {
	// a source variable that lives in a memory cell (address taken / captured by
	// a closure: `tN = new T (name)` or `local T (name)`): its current value is
	// the content of the cell in the current state, not the value of some
	// earlier load or store
	{
		var cell *ssa.Alloc
		for _, b := range f.fn.Blocks {
			if !(b == at || b.Dominates(at)) {
				continue
			}
			for _, ins := range b.Instrs {
				if b == at && before != nil && ins == before {
					break
				}
				if a, ok := ins.(*ssa.Alloc); ok && a.Comment == name {
					if b == at && before == nil {
						continue
					}
					if _, done := f.vals[a]; done {
						cell = a
					}
				}
			}
		}
		if cell != nil {
			t := cell.Type().Underlying().(*types.Pointer).Elem()
			return Val{T: f.vc.loadVal(st, f.vals[cell].T, t, "true", false), Typ: t}, true
		}
	}
	// search DebugRefs in dominating blocks, preferring the nearest dominator
	// and the last reference in it.
	var best ssa.Value
	var bestBlock *ssa.BasicBlock
	var bestAddr bool
	for _, b := range f.fn.Blocks {
		if !(b == at || b.Dominates(at)) {
			continue
		}
		for _, ins := range b.Instrs {
			if b == at && before != nil && ins == before {
				break
			}
			// a phi named after the variable is the variable's value at a merge point
			if phi, ok := ins.(*ssa.Phi); ok {
				if phi.Comment == name && (bestBlock == nil || bestBlock.Dominates(b)) {
					if _, done := f.vals[phi]; done {
						best, bestBlock, bestAddr = phi, b, false
					}
				}
				continue
			}
			d, ok := ins.(*ssa.DebugRef)
			if !ok {
				continue
			}
			obj := d.Object()
			if obj == nil || obj.Name() != name {
				continue
			}
			if _, isVar := obj.(*types.Var); !isVar {
				continue
			}
			if b == at && before == nil {
				// at the header itself only phis are current; skip refs inside the block body
				continue
			}
			if bestBlock == nil || bestBlock.Dominates(b) {
				best, bestBlock, bestAddr = d.X, b, d.IsAddr
			}
		}
	}
	if best == nil {
		// fallback: a variable whose references all come later (e.g. the implicit
		// variable of a type-switch clause, first used inside the loop whose
		// invariant mentions it): take the value some reference anywhere in the
		// function denotes, provided that value is DEFINED in a block dominating
		// this point (nearest such definition wins) and is not an address
		for _, b := range f.fn.Blocks {
			for _, ins := range b.Instrs {
				d, ok := ins.(*ssa.DebugRef)
				if !ok || d.IsAddr {
					continue
				}
				obj := d.Object()
				if obj == nil || obj.Name() != name {
					continue
				}
				if _, isVar := obj.(*types.Var); !isVar {
					continue
				}
				def, isIns := d.X.(ssa.Instruction)
				if !isIns {
					continue
				}
				db := def.Block()
				if db == nil || !(db == at || db.Dominates(at)) {
					continue
				}
				if _, done := f.vals[d.X]; !done {
					continue
				}
				if bestBlock == nil || bestBlock.Dominates(db) {
					best, bestBlock, bestAddr = d.X, db, false
				}
			}
		}
	}
	if best == nil {
		return Val{}, false
	}
	v, ok := f.vals[best]
	if !ok {
		if _, isConst := best.(*ssa.Const); isConst {
			v = f.val(best)
		} else {
			return Val{}, false
		}
	}
	if bestAddr {
		t := best.Type().Underlying().(*types.Pointer).Elem()
		return Val{T: f.vc.loadVal(st, v.T, t, "true", false), Typ: t}, true
	}
	return v, true
}

func (vc *VC) specErr(format string, a ...interface{}) Val {
	vc.unsupported("spec: "+format, a...)
	return Val{T: "true", Typ: types.Typ[types.Bool]}
}

var untypedInt = types.Typ[types.UntypedInt]

// evalSpec translates a spec expression to an SMT term.
func (vc *VC) evalSpec(env *Env, e SExpr) Val {
	switch x := e.(type) {
	case *SInt:
		return Val{T: x.V, Typ: untypedInt}
	case *SStr:
		return Val{T: vc.strConst(x.V), Typ: types.Typ[types.String]}
	case *SIdent:
		switch x.Name {
		case "true", "false":
			return Val{T: x.Name, Typ: types.Typ[types.Bool]}
		case "nil":
			return Val{T: "Null", Typ: types.Typ[types.UntypedNil]}
		}
		if v, ok := env.bound[x.Name]; ok {
			return v
		}
		if env.inOld {
			// inside old(): parameters denote entry values; locals that have no entry value stay current
			if v, ok := env.vars[x.Name]; ok {
				return v
			}
		}
		if env.lookup != nil {
			if v, ok := env.lookup(x.Name); ok {
				return v
			}
		}
		if v, ok := env.vars[x.Name]; ok {
			return v
		}
		// captured variable of a closure
		if v, ok := env.vars["&"+x.Name]; ok {
			t := v.Typ.Underlying().(*types.Pointer).Elem()
			return Val{T: vc.loadVal(env.st, v.T, t, "true", false), Typ: t}
		}
		if v, ok := vc.ghostVal(env, x.Name); ok {
			return v
		}
		// package-level constant or variable
		if env.fn != nil {
			if v, ok := vc.pkgObject(env, x.Name); ok {
				return v
			}
		}
		return vc.specErr("unknown identifier %q", x.Name)
	case *SOld:
		// old(e): e in the entry state; identifiers denote entry values (parameters), not loop-carried locals
		o := env.clone()
		if !env.inOld {
			o.now = env.st
		}
		o.st = env.old
		o.lookup = env.lookup
		o.inOld = true
		return vc.evalSpec(o, x.X)
	case *SUn:
		v := vc.evalSpec(env, x.X)
		if x.Op == "!" {
			return Val{T: Not(v.T), Typ: types.Typ[types.Bool]}
		}
		return Val{T: App("-", v.T), Typ: v.Typ}
	case *SBin:
		return vc.evalSpecBin(env, x)
	case *SField:
		// field of a struct that lives in memory: load only that field
		if loc, t, ok := vc.specPlace(env, x.X); ok {
			if st, isS := t.Underlying().(*types.Struct); isS {
				if idx, ft := findField(st, x.Name); idx >= 0 {
					fl := App("Fld", loc, fmt.Sprint(vc.sorts.FieldID(t, idx)))
					return Val{T: vc.loadVal(env.st, fl, ft, "true", false), Typ: ft}
				}
			}
		}
		v := vc.evalSpec(env, x.X)
		return vc.specField(env, v, x.Name)
	case *SIndex:
		// element of an array that lives in memory (field of array type): load
		// the one cell instead of materialising the whole array value
		if aloc, at, ok := vc.specArrayLoc(env, x.X); ok {
			i := vc.evalSpec(env, x.I)
			el := App("Elem", aloc, i.T)
			if _, isStruct := at.Elem().Underlying().(*types.Struct); !isStruct {
				return Val{T: vc.loadVal(env.st, el, at.Elem(), "true", false), Typ: at.Elem()}
			}
		}
		v := vc.evalSpec(env, x.X)
		i := vc.evalSpec(env, x.I)
		return vc.specIndex(env, v, i)
	case *SSlice:
		v := vc.evalSpec(env, x.X)
		lo := "0"
		if x.Lo != nil {
			lo = vc.evalSpec(env, x.Lo).T
		}
		switch vc.sorts.SortOf(v.Typ) {
		case "Slice":
			hi := App("sl.len", v.T)
			if x.Hi != nil {
				hi = vc.evalSpec(env, x.Hi).T
			}
			return Val{T: App("mk-slice", App("sl.base", v.T), App("+", App("sl.off", v.T), lo), App("-", hi, lo), App("-", App("sl.cap", v.T), lo)), Typ: v.Typ}
		case "Str":
			hi := App("str.len_", v.T)
			if x.Hi != nil {
				hi = vc.evalSpec(env, x.Hi).T
			}
			return Val{T: vc.strSub(v.T, lo, hi), Typ: v.Typ}
		}
		return vc.specErr("slice expression on %s", v.Typ)
	case *SQuant:
		q := env.clone()
		q.lookup = env.lookup
		var decls, ranges []string
		for _, vd := range x.Vars {
			t := vc.resolveType(env, vd.Type)
			if t == nil {
				return vc.specErr("unknown type %q of bound variable", vd.Type)
			}
			name := "q_" + vd.Name
			q.bound[vd.Name] = Val{T: name, Typ: t}
			decls = append(decls, fmt.Sprintf("(%s %s)", name, vc.sorts.SortOf(t)))
			if b, ok := t.Underlying().(*types.Basic); ok && b.Info()&types.IsInteger != 0 && b.Kind() != types.Int {
				ranges = append(ranges, RangeOf(t, name))
			}
		}
		body := vc.evalSpec(q, x.Body)
		vc.flushSortDecls()
		var qnames []string
		for _, vd := range x.Vars {
			qnames = append(qnames, "q_"+vd.Name)
		}
		if len(x.Trig) > 0 {
			var ts []string
			for _, te := range x.Trig {
				ts = append(ts, vc.evalSpec(q, te).T)
			}
			pat := strings.Join(ts, " ")
			if x.Forall {
				return Val{T: fmt.Sprintf("(forall (%s) (! %s :pattern (%s)))", strings.Join(decls, " "), Implies(And(ranges...), body.T), pat), Typ: types.Typ[types.Bool]}
			}
			return Val{T: fmt.Sprintf("(exists (%s) (! %s :pattern (%s)))", strings.Join(decls, " "), And(append(ranges, body.T)...), pat), Typ: types.Typ[types.Bool]}
		}
		if x.Forall {
			inner := Implies(And(ranges...), body.T)
			if pat := autoPattern(inner, qnames); pat != "" {
				inner = fmt.Sprintf("(! %s :pattern (%s))", inner, pat)
			}
			return Val{T: fmt.Sprintf("(forall (%s) %s)", strings.Join(decls, " "), inner), Typ: types.Typ[types.Bool]}
		}
		inner := And(append(ranges, body.T)...)
		if pat := autoPattern(inner, qnames); pat != "" {
			inner = fmt.Sprintf("(! %s :pattern (%s))", inner, pat)
		}
		return Val{T: fmt.Sprintf("(exists (%s) %s)", strings.Join(decls, " "), inner), Typ: types.Typ[types.Bool]}
	case *SCall:
		return vc.evalSpecCall(env, x)
	}
	return vc.specErr("unsupported expression %T", e)
}

func (vc *VC) pkgObject(env *Env, name string) (Val, bool) {
	fn := env.fn
	for fn.Parent() != nil {
		fn = fn.Parent()
	}
	var pkg *ssa.Package = fn.Pkg
	if pkg == nil && fn.Origin() != nil {
		pkg = fn.Origin().Pkg
	}
	if pkg == nil {
		return Val{}, false
	}
	obj := pkg.Pkg.Scope().Lookup(name)
	switch o := obj.(type) {
	case *types.Const:
		c := ssa.NewConst(o.Val(), o.Type())
		return vc.constVal(c), true
	case *types.Var:
		if g, ok := pkg.Members[name].(*ssa.Global); ok {
			t := g.Type().Underlying().(*types.Pointer).Elem()
			return Val{T: vc.loadVal(env.st, vc.globalLoc(g), t, "true", false), Typ: t}, true
		}
	}
	return Val{}, false
}

// resolveType resolves a type expression in the scope of env.fn.
func (vc *VC) resolveType(env *Env, text string) types.Type {
	switch text {
	case "int":
		return types.Typ[types.Int]
	case "bool":
		return types.Typ[types.Bool]
	case "uint32":
		return types.Typ[types.Uint32]
	case "uint64":
		return types.Typ[types.Uint64]
	case "uint8", "byte":
		return types.Typ[types.Uint8]
	case "uint16":
		return types.Typ[types.Uint16]
	case "int64":
		return types.Typ[types.Int64]
	case "int32", "rune":
		return types.Typ[types.Int32]
	case "string":
		return types.Typ[types.String]
	case "uint":
		return types.Typ[types.Uint]
	}
	fn := env.fn
	for fn != nil && fn.Parent() != nil {
		fn = fn.Parent()
	}
	if fn == nil {
		return nil
	}
	pkg := fn.Pkg
	if pkg == nil && fn.Origin() != nil {
		pkg = fn.Origin().Pkg
	}
	if pkg == nil {
		return nil
	}
	tv, err := types.Eval(vc.Eng.Prog.Fset, pkg.Pkg, fn.Pos(), text)
	if err != nil {
		// try every file scope of the package (imports differ per file)
		for _, f := range vc.Eng.filesOf(pkg.Pkg) {
			tv, err = types.Eval(vc.Eng.Prog.Fset, pkg.Pkg, f.End()-1, text)
			if err == nil {
				break
			}
		}
		if err != nil {
			// last resort: the package whose contract file holds the clause being evaluated
			if env.specFile != "" {
				if t := vc.typeInDirOf(env.specFile, text); t != nil {
					return t
				}
			}
			// contracts of library functions kept outside any package: the
			// package of the function under verification (where the call is)
			if top := vc.Fn; top != nil && top != env.fn {
				alt := *env
				alt.fn = top
				alt.specFile = ""
				return vc.resolveType(&alt, text)
			}
			return nil
		}
	}
	return tv.Type
}

func (vc *VC) evalSpecBin(env *Env, x *SBin) Val {
	boolT := types.Typ[types.Bool]
	switch x.Op {
	case "&&":
		return Val{T: And(vc.evalSpec(env, x.L).T, vc.evalSpec(env, x.R).T), Typ: boolT}
	case "||":
		return Val{T: Or(vc.evalSpec(env, x.L).T, vc.evalSpec(env, x.R).T), Typ: boolT}
	case "==>":
		return Val{T: Implies(vc.evalSpec(env, x.L).T, vc.evalSpec(env, x.R).T), Typ: boolT}
	case "<==>":
		return Val{T: Eq(vc.evalSpec(env, x.L).T, vc.evalSpec(env, x.R).T), Typ: boolT}
	}
	l, r := vc.evalSpec(env, x.L), vc.evalSpec(env, x.R)
	switch x.Op {
	case "==", "!=":
		var e string
		ls := vc.sorts.SortOf(l.Typ)
		rs := vc.sorts.SortOf(r.Typ)
		lnil := isUntypedNil(l.Typ)
		rnil := isUntypedNil(r.Typ)
		switch {
		case rnil && ls == "Slice":
			e = Eq(App("sl.base", l.T), "Null")
		case lnil && rs == "Slice":
			e = Eq(App("sl.base", r.T), "Null")
		case rnil && ls == "Iface":
			e = Eq(App("if.tag", l.T), "0")
		case lnil && rs == "Iface":
			e = Eq(App("if.tag", r.T), "0")
		default:
			e = Eq(l.T, r.T)
		}
		if x.Op == "!=" {
			e = Not(e)
		}
		return Val{T: e, Typ: boolT}
	case "<", "<=", ">", ">=":
		return Val{T: App(x.Op, l.T, r.T), Typ: boolT}
	case "+", "-", "*":
		t := l.Typ
		if t == untypedInt {
			t = r.Typ
		}
		if vc.sorts.SortOf(t) == "Str" && x.Op == "+" {
			return Val{T: vc.strCat(l.T, r.T), Typ: t}
		}
		return Val{T: App(x.Op, l.T, r.T), Typ: t}
	case "/":
		return Val{T: App("div", l.T, r.T), Typ: l.Typ}
	case "%":
		return Val{T: App("mod", l.T, r.T), Typ: l.Typ}
	case "&":
		// like the code side: x & (2^k - 1) is x mod 2^k
		if lit, ok := x.R.(*SInt); ok {
			if n, err := strconv.ParseInt(lit.V, 10, 64); err == nil && n >= 0 && isMask(n) {
				return Val{T: App("mod", l.T, BigLit(big.NewInt(n+1))), Typ: l.Typ}
			}
		}
		return Val{T: App("bvand_", l.T, r.T), Typ: l.Typ}
	case "|":
		return Val{T: App("bvor_", l.T, r.T), Typ: l.Typ}
	case "^":
		return Val{T: App("bvxor_", l.T, r.T), Typ: l.Typ}
	case "<<":
		return Val{T: App("shl_", l.T, r.T), Typ: l.Typ}
	case ">>":
		return Val{T: App("shr_", l.T, r.T), Typ: l.Typ}
	}
	return vc.specErr("operator %s", x.Op)
}

func isUntypedNil(t types.Type) bool {
	b, ok := t.(*types.Basic)
	return ok && b.Kind() == types.UntypedNil
}

func (vc *VC) specField(env *Env, v Val, name string) Val {
	t := v.Typ
	if p, ok := t.Underlying().(*types.Pointer); ok {
		// auto-deref
		st, ok := p.Elem().Underlying().(*types.Struct)
		if !ok {
			return vc.specErr("field %s of non-struct pointer %s", name, t)
		}
		idx, ft := findField(st, name)
		if idx < 0 {
			return vc.specFieldEmbedded(env, v, p.Elem(), st, name, true)
		}
		loc := App("Fld", v.T, fmt.Sprint(vc.sorts.FieldID(p.Elem(), idx)))
		return Val{T: vc.loadVal(env.st, loc, ft, "true", false), Typ: ft}
	}
	st, ok := t.Underlying().(*types.Struct)
	if !ok {
		return vc.specErr("field %s of non-struct %s", name, t)
	}
	idx, ft := findField(st, name)
	if idx < 0 {
		return vc.specFieldEmbedded(env, v, t, st, name, false)
	}
	sn := vc.sorts.SortOf(t)
	vc.flushSortDecls()
	return Val{T: App(fmt.Sprintf("%s.f%d", sn, idx), v.T), Typ: ft}
}

// specFieldEmbedded resolves a promoted field through embedded structs.
func (vc *VC) specFieldEmbedded(env *Env, v Val, owner types.Type, st *types.Struct, name string, viaPtr bool) Val {
	for i := 0; i < st.NumFields(); i++ {
		fl := st.Field(i)
		if !fl.Embedded() {
			continue
		}
		var inner Val
		if viaPtr {
			loc := App("Fld", v.T, fmt.Sprint(vc.sorts.FieldID(owner, i)))
			if _, isStruct := fl.Type().Underlying().(*types.Struct); isStruct {
				// address of the embedded struct: treat as pointer to it
				inner = Val{T: loc, Typ: types.NewPointer(fl.Type())}
			} else {
				inner = Val{T: vc.loadVal(env.st, loc, fl.Type(), "true", false), Typ: fl.Type()}
			}
		} else {
			sn := vc.sorts.SortOf(owner)
			inner = Val{T: App(fmt.Sprintf("%s.f%d", sn, i), v.T), Typ: fl.Type()}
		}
		var est *types.Struct
		switch u := fl.Type().Underlying().(type) {
		case *types.Struct:
			est = u
		case *types.Pointer:
			est, _ = u.Elem().Underlying().(*types.Struct)
		}
		if est == nil {
			continue
		}
		if idx, _ := findField(est, name); idx >= 0 {
			return vc.specField(env, inner, name)
		}
	}
	return vc.specErr("no field %s in %s", name, owner)
}

func findField(st *types.Struct, name string) (int, types.Type) {
	for i := 0; i < st.NumFields(); i++ {
		if st.Field(i).Name() == name {
			return i, st.Field(i).Type()
		}
	}
	return -1, nil
}

func (vc *VC) specIndex(env *Env, v, i Val) Val {
	switch u := v.Typ.Underlying().(type) {
	case *types.Slice:
		loc := App("at_", v.T, i.T)
		return Val{T: vc.loadVal(env.st, loc, u.Elem(), "true", false), Typ: u.Elem()}
	case *types.Basic:
		if u.Info()&types.IsString != 0 {
			return Val{T: App("str.at_", v.T, i.T), Typ: types.Typ[types.Uint8]}
		}
	case *types.Array:
		return Val{T: App("select", v.T, i.T), Typ: u.Elem()}
	case *types.Pointer:
		if a, ok := u.Elem().Underlying().(*types.Array); ok {
			return Val{T: vc.loadVal(env.st, App("Elem", v.T, i.T), a.Elem(), "true", false), Typ: a.Elem()}
		}
	case *types.Map:
		return vc.mapGet(env.st, v, i.T)
	}
	return vc.specErr("index on %s", v.Typ)
}

func (vc *VC) evalSpecCall(env *Env, x *SCall) Val {
	intT := types.Typ[types.Int]
	boolT := types.Typ[types.Bool]
	arg := func(i int) Val { return vc.evalSpec(env, x.Args[i]) }
	switch x.Fun {
	case "len":
		v := arg(0)
		switch vc.sorts.SortOf(v.Typ) {
		case "Slice":
			return Val{T: App("sl.len", v.T), Typ: intT}
		case "Str":
			return Val{T: App("str.len_", v.T), Typ: intT}
		}
		if a, ok := v.Typ.Underlying().(*types.Array); ok {
			return Val{T: fmt.Sprint(a.Len()), Typ: intT}
		}
		if _, ok := v.Typ.Underlying().(*types.Map); ok {
			return Val{T: vc.mapLen(env.st, v), Typ: intT}
		}
		return vc.specErr("len of %s", v.Typ)
	case "arg":
		// arg(k): the k-th argument (0-based, receiver first for methods) of the
		// call instruction the assertion is anchored at
		if n, ok := x.Args[0].(*SInt); ok && env.callArgs != nil {
			k, _ := strconv.Atoi(n.V)
			if k >= 0 && k < len(env.callArgs) {
				return env.callArgs[k]
			}
		}
		return vc.specErr("arg(k): not anchored at a call with that many arguments")
	case "addr":
		// addr(x): the address of the local variable x (a variable that lives in a memory cell)
		if id, ok := x.Args[0].(*SIdent); ok && env.addrOf != nil {
			if v, ok := env.addrOf(id.Name); ok {
				return v
			}
		}
		if id, ok := x.Args[0].(*SIdent); ok {
			// a captured variable of the closure whose contract this is
			if v, ok := env.vars["&"+id.Name]; ok {
				return v
			}
		}
		// addr(xs[i]) / addr(p.f): the address of a struct that lives in memory
		if loc, t, ok := vc.specPlace(env, x.Args[0]); ok {
			return Val{T: loc, Typ: types.NewPointer(t)}
		}
		return vc.specErr("addr(x): x is not a cell-backed local variable here")
	case "visited":
		// visited(k): key k has already been yielded by the map iteration of the
		// loop whose invariant is being evaluated
		if env.visLoc == "" {
			return vc.specErr("visited(k) is only available in the invariants of a range-over-map loop")
		}
		return Val{T: App("select", App("select", vc.heapOf(env.st, env.visHeap), env.visLoc), arg(0).T), Typ: types.Typ[types.Bool]}
	case "before":
		// before(N, e): e evaluated in the state in which loop N (source-order
		// ordinal) of the function under verification was entered; local names
		// keep their current values. Usable in the invariants of loop N and in
		// everything executed after it.
		if len(x.Args) != 2 {
			return vc.specErr("before(N, e) needs a loop ordinal and an expression")
		}
		n, isInt := x.Args[0].(*SInt)
		if !isInt {
			return vc.specErr("before(N, e): N must be a literal loop ordinal")
		}
		ord, _ := strconv.Atoi(n.V)
		pre := vc.loopPre[ord]
		if pre == nil {
			return vc.specErr("before(%d, e): loop %d has not been entered at this point", ord, ord)
		}
		o := env.clone()
		if o.now == nil {
			o.now = env.st
		}
		o.st = pre
		o.lookup = env.lookup
		o.outer = env.outer
		return vc.evalSpec(o, x.Args[1])
	case "now":
		// now(e) inside old(...) / before(...): e in the current state
		if env.now != nil {
			n := env.clone()
			n.st = env.now
			n.inOld = false
			n.lookup = env.lookup
			return vc.evalSpec(n, x.Args[0])
		}
		return arg(0)
	case "cap":
		return Val{T: App("sl.cap", arg(0).T), Typ: intT}
	case "outer":
		// outer(v): the value variable v had at the head of the enclosing loop
		// (the current iteration of that loop), for invariants of inner loops
		if id, ok := x.Args[0].(*SIdent); ok && env.outer != nil {
			if v, ok := env.outer(id.Name); ok {
				return v
			}
		}
		return vc.specErr("outer(%v): no enclosing loop carries that variable", x.Args[0])
	case "min", "max":
		a, b := arg(0), arg(1)
		op := "<="
		if x.Fun == "max" {
			op = ">="
		}
		return Val{T: Ite(App(op, a.T, b.T), a.T, b.T), Typ: a.Typ}
	case "ite":
		c, a, b := arg(0), arg(1), arg(2)
		return Val{T: Ite(c.T, a.T, b.T), Typ: a.Typ}
	case "fresh":
		v := arg(0)
		switch vc.sorts.SortOf(v.Typ) {
		case "Loc":
			return Val{T: And(App("(_ is L)", v.T), App(">", App("rt", v.T), env.old.Top)), Typ: boolT}
		case "Slice":
			return Val{T: And(App("(_ is L)", App("sl.base", v.T)), App(">", App("rt", App("sl.base", v.T)), env.old.Top)), Typ: boolT}
		case "Iface":
			return Val{T: And(App("(_ is L)", App("if.ptr", v.T)), App(">", App("rt", App("if.ptr", v.T)), env.old.Top)), Typ: boolT}
		}
		return vc.specErr("fresh of %s", v.Typ)
	case "allocated":
		// allocated(x): x is (or holds) a pointer to an object that exists in the
		// current state
		v := arg(0)
		var p string
		switch vc.sorts.SortOf(v.Typ) {
		case "Loc":
			p = v.T
		case "Slice":
			p = App("sl.base", v.T)
		case "Iface":
			p = App("if.ptr", v.T)
		default:
			return vc.specErr("allocated of %s", v.Typ)
		}
		cs := []string{App("(_ is L)", p), App(">=", App("rt", p), "0"), App("<=", App("rt", p), env.st.Top)}
		if env.allocLo != "" {
			cs = append(cs, App(">", App("rt", p), env.allocLo))
		}
		return Val{T: And(cs...), Typ: boolT}
	case "tagof":
		// tagof(x): the dynamic type of interface x as an integer (0 for nil)
		v := arg(0)
		if vc.sorts.SortOf(v.Typ) != "Iface" {
			return vc.specErr("tagof of %s", v.Typ)
		}
		return Val{T: App("if.tag", v.T), Typ: intT}
	case "freshsince":
		// freshsince(N, x): x was allocated after loop N was entered
		n, isInt := x.Args[0].(*SInt)
		if !isInt || len(x.Args) != 2 {
			return vc.specErr("freshsince(N, x): N must be a literal loop ordinal")
		}
		ord, _ := strconv.Atoi(n.V)
		pre := vc.loopPre[ord]
		if pre == nil {
			return vc.specErr("freshsince(%d, x): loop %d has not been entered at this point", ord, ord)
		}
		v := arg(1)
		switch vc.sorts.SortOf(v.Typ) {
		case "Loc":
			return Val{T: And(App("(_ is L)", v.T), App(">", App("rt", v.T), pre.Top)), Typ: boolT}
		case "Slice":
			return Val{T: And(App("(_ is L)", App("sl.base", v.T)), App(">", App("rt", App("sl.base", v.T)), pre.Top)), Typ: boolT}
		case "Iface":
			return Val{T: And(App("(_ is L)", App("if.ptr", v.T)), App(">", App("rt", App("if.ptr", v.T)), pre.Top)), Typ: boolT}
		}
		return vc.specErr("freshsince of %s", v.Typ)
	case "base":
		return Val{T: App("sl.base", arg(0).T), Typ: types.Typ[types.UnsafePointer]}
	case "notypednil":
		// notypednil(x): interface x is nil or holds a non-nil pointer (no typed nil inside)
		v := arg(0)
		return Val{T: Or(Eq(App("if.tag", v.T), "0"), Not(Eq(App("if.ptr", v.T), "Null"))), Typ: boolT}
	case "as":
		// as(x, "T"): the dynamic value of interface x viewed as a T (meaningful when typeis(x, "T"))
		v := arg(0)
		if id, ok := x.Args[1].(*SStr); ok {
			t := vc.resolveType(env, id.V)
			if t == nil {
				return vc.specErr("as: unknown type %s", id.V)
			}
			if vc.sorts.SortOf(t) == "Loc" {
				return Val{T: App("if.ptr", v.T), Typ: t}
			}
			return Val{T: App(vc.unboxFn(vc.sorts.SortOf(t)), App("if.ptr", v.T)), Typ: t}
		}
		return vc.specErr("as(x, \"T\") needs a type string")
	case "deref":
		// deref(p): the value p points to
		v := arg(0)
		p, ok := v.Typ.Underlying().(*types.Pointer)
		if !ok {
			return vc.specErr("deref of non-pointer %s", v.Typ)
		}
		return Val{T: vc.loadVal(env.st, v.T, p.Elem(), "true", false), Typ: p.Elem()}
	case "mapval":
		// mapval(m, k): the stored value slot of key k, without the presence
		// test (equals m[k] when has(m, k)); usable as a quantifier trigger
		m, k := arg(0), arg(1)
		mt, ok := m.Typ.Underlying().(*types.Map)
		if !ok {
			return vc.specErr("mapval: %s is not a map", m.Typ)
		}
		mv, _, _, _ := vc.mapHeaps(m.Typ)
		return Val{T: App("select", App("select", vc.heapOf(env.st, mv), m.T), k.T), Typ: mt.Elem()}
	case "has":
		// has(m, k): key k is present in map m
		m, k := arg(0), arg(1)
		if _, ok := m.Typ.Underlying().(*types.Map); !ok {
			return vc.specErr("has: %s is not a map", m.Typ)
		}
		return Val{T: vc.mapHas(env.st, m, k.T), Typ: boolT}
	case "runecount":
		// the value utf8.RuneCount returns for the bytes of a slice (abstract, 0 <= r <= len)
		v := arg(0)
		return Val{T: vc.runeCountTerm(env.st.H["Int"], v.T), Typ: intT}
	case "root":
		// allocation identity of the object a slice/pointer points into
		v := arg(0)
		if vc.sorts.SortOf(v.Typ) == "Slice" {
			return Val{T: App("rt", App("sl.base", v.T)), Typ: intT}
		}
		return Val{T: App("rt", v.T), Typ: intT}
	case "offset":
		return Val{T: App("sl.off", arg(0).T), Typ: intT}
	case "int", "int64", "uint64", "uint32", "uint16", "uint8", "byte", "int32", "uint":
		v := arg(0)
		t := vc.resolveType(env, x.Fun)
		if x.Fun == "int" || x.Fun == "int64" {
			return Val{T: v.T, Typ: t}
		}
		return Val{T: Wrap(t, v.T), Typ: t}
	case "inrange":
		// inrange(x, T-name as identifier)
		v := arg(0)
		if id, ok := x.Args[1].(*SIdent); ok {
			t := vc.resolveType(env, id.Name)
			return Val{T: RangeOf(t, v.T), Typ: boolT}
		}
	case "typeis":
		// typeis(x, T): dynamic type of interface x is T
		v := arg(0)
		if id, ok := x.Args[1].(*SStr); ok {
			t := vc.resolveType(env, id.V)
			if t == nil {
				return vc.specErr("typeis: unknown type %s", id.V)
			}
			return Val{T: Eq(App("if.tag", v.T), fmt.Sprint(vc.sorts.TypeTag(t))), Typ: boolT}
		}
	case "string":
		v := arg(0)
		if vc.sorts.SortOf(v.Typ) == "Slice" {
			return Val{T: vc.bytesToStr(env.st, v.T), Typ: types.Typ[types.String]}
		}
		return v
	}
	pf := vc.Eng.Spec.Pures[x.Fun]
	if pf == nil {
		return vc.specErr("unknown spec function %s", x.Fun)
	}
	if len(pf.Params) != len(x.Args) {
		return vc.specErr("spec function %s: want %d args, got %d", x.Fun, len(pf.Params), len(x.Args))
	}
	if pf.Abstract {
		return vc.callAbstract(env, pf, x)
	}
	if env.depth > 8 {
		return vc.specErr("pure function recursion too deep at %s", x.Fun)
	}
	inner := &Env{vc: vc, st: env.st, old: env.old, vars: map[string]Val{}, bound: map[string]Val{}, fn: env.fn, depth: env.depth + 1, specFile: pf.File, inOld: env.inOld, now: env.now}
	for i, p := range pf.Params {
		a := arg(i)
		if t := vc.resolveTypeAt(env, pf.File, p.Type); t != nil && a.Typ == untypedInt {
			a.Typ = t
		} else if t != nil && !isUntypedNil(a.Typ) {
			a.Typ = t
		}
		inner.bound[p.Name] = a
	}
	return vc.evalSpec(inner, pf.Body)
}

func (vc *VC) callAbstract(env *Env, pf *PureFunc, x *SCall) Val {
	rt := vc.resolveTypeAt(env, pf.File, pf.Result)
	if rt == nil {
		return vc.specErr("abstract %s: unknown result type %s", pf.Name, pf.Result)
	}
	var args []string
	var sorts []string
	for i, p := range pf.Params {
		a := vc.evalSpec(env, x.Args[i])
		t := vc.resolveTypeAt(env, pf.File, p.Type)
		if t == nil {
			return vc.specErr("abstract %s: unknown param type %s", pf.Name, p.Type)
		}
		args = append(args, a.T)
		sorts = append(sorts, vc.sorts.SortOf(t))
	}
	readsBytes := false
	for _, r := range pf.Reads {
		if r == "bytes" {
			readsBytes = true
		}
	}
	if readsBytes {
		// the function depends on the CONTENT of its integer-element slice
		// parameters only (not on unrelated memory of the same heap)
		for i, p := range pf.Params {
			t := vc.resolveTypeAt(env, pf.File, p.Type)
			if sl, ok := t.Underlying().(*types.Slice); ok && vc.sorts.SortOf(sl.Elem()) == "Int" {
				args = append(args, App("content_", env.st.H["Int"], args[i]))
				sorts = append(sorts, "(Array Int Int)")
			}
		}
	}
	for _, r := range pf.Reads {
		if r == "bytes" {
			continue
		}
		args = append(args, env.st.H[r])
		sorts = append(sorts, "(Array Loc "+r+")")
	}
	name := "abs_" + pf.Name
	if !vc.absFns[name] {
		vc.absFns[name] = true
		vc.flushSortDecls()
		vc.lines = append(vc.lines, fmt.Sprintf("(declare-fun %s (%s) %s)", name, strings.Join(sorts, " "), vc.sorts.SortOf(rt)))
	}
	return Val{T: App(name, args...), Typ: rt}
}

// ---- assigns patterns ----

// assignPats turns assigns lvalues into location patterns, evaluated in env
// (the pre-state of the call / entry state of the function).
func (vc *VC) assignPats(env *Env, cs []*Clause) []modPat {
	var pats []modPat
	for _, c := range cs {
		if call, isCall := c.Expr.(*SCall); isCall && call.Fun == "mapof" && len(call.Args) == 1 {
			// mapof(m): every entry (and the size) of the map object m
			mv := vc.evalSpec(env, call.Args[0])
			if _, isMap := mv.Typ.Underlying().(*types.Map); isMap {
				for _, mp := range vc.mapModPats(mv.Typ) {
					mp.all = false
					mp.base = mv.T
					pats = append(pats, mp)
				}
				continue
			}
		}
		if call, isCall := c.Expr.(*SCall); isCall && call.Fun == "allmaps" && len(call.Args) == 1 {
			// allmaps(m): every map of m's type (type-level frame)
			mv := vc.evalSpec(env, call.Args[0])
			if _, isMap := mv.Typ.Underlying().(*types.Map); isMap {
				pats = append(pats, vc.mapModPats(mv.Typ)...)
				continue
			}
		}
		if call, isCall := c.Expr.(*SCall); isCall && call.Fun == "heap" && len(call.Args) == 1 {
			// heap("Slice"): any cell of that scalar kind (slice headers, ints, ...)
			// - the coarsest frame short of everything: cells of the other kinds
			// (and ghost cells) are untouched
			if a, ok := call.Args[0].(*SStr); ok {
				found := false
				for _, hs := range HeapSorts {
					if hs == a.V {
						found = true
					}
				}
				if found {
					pats = append(pats, modPat{sort: a.V, all: true})
					continue
				}
			}
			vc.unsupported("assigns: heap(\"K\") needs one of %v", HeapSorts)
			continue
		}
		if call, isCall := c.Expr.(*SCall); isCall && call.Fun == "allfields" && len(call.Args) == 1 {
			// allfields(T): every field of every T in memory (type-level frame)
			var tn string
			switch a := call.Args[0].(type) {
			case *SIdent:
				tn = a.Name
			case *SStr:
				tn = a.V
			}
			if t := vc.resolveTypeAt(env, c.File, tn); t != nil {
				if st, isS := t.Underlying().(*types.Struct); isS {
					for i := 0; i < st.NumFields(); i++ {
						fid := vc.sorts.FieldID(t, i)
						for _, lf := range vc.leaves(st.Field(i).Type()) {
							pats = append(pats, modPat{sort: lf.sort, steps: append([]step{{fld: fid}}, lf.steps...)})
						}
					}
					continue
				}
			}
		}
		loc, t, steps, ok := vc.specAddr(env, c.Expr)
		if !ok {
			vc.unsupported("assigns: cannot take address of %s", c.Text)
			for _, s := range HeapSorts {
				pats = append(pats, modPat{sort: s, all: true})
			}
			continue
		}
		for _, lf := range vc.leaves(t) {
			pats = append(pats, modPat{sort: lf.sort, base: loc, steps: append(append([]step{}, steps...), lf.steps...)})
		}
	}
	return pats
}

// specAddr computes the address of an lvalue expression: an exact base
// location plus a suffix of steps (wildcards become "any element").
func (vc *VC) specAddr(env *Env, e SExpr) (loc string, t types.Type, steps []step, ok bool) {
	switch x := e.(type) {
	case *SUn:
	case *SIdent:
		if g := vc.Eng.Spec.Ghosts[x.Name]; g != nil {
			if t := vc.resolveGhostType(env, g); t != nil {
				return vc.ghostLoc(x.Name), t, nil, true
			}
		}
	case *SField:
		// pointer.field, or lvalue.field
		if bl, bt, bs, ok := vc.specAddr(env, x.X); ok {
			if st, isS := bt.Underlying().(*types.Struct); isS {
				idx, ft := findField(st, x.Name)
				if idx < 0 {
					return "", nil, nil, false
				}
				return bl, ft, append(bs, step{fld: vc.sorts.FieldID(bt, idx)}), true
			}
			if p, isP := bt.Underlying().(*types.Pointer); isP && len(bs) == 0 {
				_ = p
			}
		}
		v := vc.evalSpec(env, x.X)
		p, isP := v.Typ.Underlying().(*types.Pointer)
		if !isP {
			return "", nil, nil, false
		}
		st, isS := p.Elem().Underlying().(*types.Struct)
		if !isS {
			return "", nil, nil, false
		}
		idx, ft := findField(st, x.Name)
		if idx < 0 {
			return "", nil, nil, false
		}
		return v.T, ft, []step{{fld: vc.sorts.FieldID(p.Elem(), idx)}}, true
	case *SIndex:
		v := vc.evalSpec(env, x.X)
		sl, isS := v.Typ.Underlying().(*types.Slice)
		if !isS {
			return "", nil, nil, false
		}
		if _, star := x.I.(*SStar); star {
			return App("sl.base", v.T), sl.Elem(), []step{{elem: true}}, true
		}
		i := vc.evalSpec(env, x.I)
		return App("sl.base", v.T), sl.Elem(), []step{{elem: true, idx: App("+", App("sl.off", v.T), i.T)}}, true
	case *SCall:
		if x.Fun == "anyelem" && len(x.Args) == 1 {
			// anyelem(T): every slice/array element cell holding a T (type-level frame)
			if id, ok := x.Args[0].(*SIdent); ok {
				if t := vc.resolveType(env, id.Name); t != nil {
					return "", t, []step{{elem: true}}, true
				}
			}
			if id, ok := x.Args[0].(*SStr); ok {
				if t := vc.resolveType(env, id.V); t != nil {
					return "", t, []step{{elem: true}}, true
				}
			}
			return "", nil, nil, false
		}
		if x.Fun == "fieldof" && len(x.Args) == 2 {
			// fieldof(T, f): field f of every T in memory (type-level frame)
			tid, ok1 := x.Args[0].(*SIdent)
			fid, ok2 := x.Args[1].(*SIdent)
			if ok1 && ok2 {
				if t := vc.resolveType(env, tid.Name); t != nil {
					if st, isS := t.Underlying().(*types.Struct); isS {
						if idx, ft := findField(st, fid.Name); idx >= 0 {
							return "", ft, []step{{fld: vc.sorts.FieldID(t, idx)}}, true
						}
					}
				}
			}
			return "", nil, nil, false
		}
		if x.Fun == "deref" && len(x.Args) == 1 {
			v := vc.evalSpec(env, x.Args[0])
			if p, ok := v.Typ.Underlying().(*types.Pointer); ok {
				return v.T, p.Elem(), nil, true
			}
		}
	}
	return "", nil, nil, false
}

// ---- loop modification analysis ----

// loopModPats over-approximates the locations written by the loop.
func (f *frame) loopModPats(li *loopInfo, pre *State) []modPat {
	vc := f.vc
	var pats []modPat
	all := func(why string) {
		vc.note("loop %d of %s: %s; all heaps havocked at the loop head", li.ordinal, FuncName(f.fn), why)
		for _, s := range HeapSorts {
			pats = append(pats, modPat{sort: s, all: true})
		}
	}
	outside := func(v ssa.Value) bool {
		switch x := v.(type) {
		case *ssa.Parameter, *ssa.Const, *ssa.Global, *ssa.FreeVar, *ssa.Function:
			return true
		case ssa.Instruction:
			return !li.blocks[x.Block()]
		}
		return false
	}
	var addrPat func(a ssa.Value) (base string, steps []step, ok bool)
	addrPat = func(a ssa.Value) (string, []step, bool) {
		if outside(a) {
			if v, ok := f.vals[a]; ok {
				return v.T, nil, true
			}
			if _, isG := a.(*ssa.Global); isG {
				return f.val(a).T, nil, true
			}
			return "", nil, true
		}
		switch x := a.(type) {
		case *ssa.FieldAddr:
			stT := x.X.Type().Underlying().(*types.Pointer).Elem()
			b, s, rel := addrPat(x.X)
			return b, append(s, step{fld: vc.sorts.FieldID(stT, x.Field)}), rel
		case *ssa.IndexAddr:
			if _, isSl := x.X.Type().Underlying().(*types.Slice); isSl {
				if outside(x.X) {
					if v, ok := f.vals[x.X]; ok {
						return App("sl.base", v.T), []step{{elem: true}}, true
					}
				}
				return "", []step{{elem: true}}, true
			}
			b, s, rel := addrPat(x.X)
			return b, append(s, step{elem: true}), rel
		case *ssa.Alloc:
			// allocated inside the loop: fresh each iteration, covered by rt > top
			return "", nil, false
		}
		return "", nil, true
	}
	for _, b := range f.fn.Blocks {
		if !li.blocks[b] {
			continue
		}
		for _, ins := range b.Instrs {
			if f.top && f.spec != nil {
				// ghost assignments anchored at instructions of the loop write their ghost cell
				for _, a := range f.spec.Asserts {
					if a.Update == "" || !anchorMatches(ins, a.Anchor) {
						continue
					}
					if g := vc.Eng.Spec.Ghosts[a.Update]; g != nil {
						if gt := vc.resolveGhostType(f.baseEnv(pre), g); gt != nil {
							for _, lf := range vc.leaves(gt) {
								pats = append(pats, modPat{sort: lf.sort, base: vc.ghostLoc(a.Update), steps: lf.steps})
							}
						}
					}
				}
			}
			switch x := ins.(type) {
			case *ssa.Next:
				if rg, isRange := x.Iter.(*ssa.Range); isRange && !x.IsString {
					if _, isMap := rg.X.Type().Underlying().(*types.Map); isMap {
						_, mp, _, _ := vc.mapHeaps(rg.X.Type())
						pats = append(pats, modPat{sort: mp, base: f.visLocOf(rg)})
					}
				}
			case *ssa.Store:
				base, steps, relevant := addrPat(x.Addr)
				if !relevant {
					continue
				}
				t := x.Addr.Type().Underlying().(*types.Pointer).Elem()
				for _, lf := range vc.leaves(t) {
					pats = append(pats, modPat{sort: lf.sort, base: base, steps: append(append([]step{}, steps...), lf.steps...)})
				}
			case *ssa.MapUpdate:
				mps := vc.mapModPats(x.Map.Type())
				if outside(x.Map) {
					// the map object is loop-invariant: only its own cells change
					if mv, ok := f.vals[x.Map]; ok {
						for i := range mps {
							mps[i].all = false
							mps[i].base = mv.T
						}
					}
				}
				pats = append(pats, mps...)
			case *ssa.Call:
				pats = append(pats, f.callModPats(x.Common(), li, all, outside)...)
			case *ssa.Defer:
				// registering a deferred call writes nothing; it runs at function exit
			case *ssa.Go:
				all("go statement inside loop")
			case *ssa.RunDefers:
			}
		}
	}
	return pats
}

// callModPats over-approximates what a call inside a loop may write.
func (f *frame) callModPats(cc *ssa.CallCommon, li *loopInfo, all func(string), outside func(ssa.Value) bool) []modPat {
	vc := f.vc
	var pats []modPat
	if b, ok := cc.Value.(*ssa.Builtin); ok {
		switch b.Name() {
		case "append", "copy":
			et := cc.Args[0].Type().Underlying().(*types.Slice).Elem()
			base := ""
			if b.Name() == "copy" && outside(cc.Args[0]) {
				if v, ok := f.vals[cc.Args[0]]; ok {
					base = App("sl.base", v.T)
				}
			}
			for _, lf := range vc.leaves(et) {
				pats = append(pats, modPat{sort: lf.sort, base: base, steps: append([]step{{elem: true}}, lf.steps...)})
			}
		case "delete":
			mps := vc.mapModPats(cc.Args[0].Type())
			if outside(cc.Args[0]) {
				if mv, ok := f.vals[cc.Args[0]]; ok {
					for i := range mps {
						mps[i].all = false
						mps[i].base = mv.T
					}
				}
			}
			pats = append(pats, mps...)
		}
		return pats
	}
	if cc.IsInvoke() {
		if ps, ok := f.ifaceModPats(cc); ok {
			return ps
		}
		all("interface call " + cc.Method.Name())
		return nil
	}
	callee := cc.StaticCallee()
	if callee == nil {
		if cands := funcCandidates(cc.Value, map[ssa.Value]bool{}); len(cands) > 0 {
			for _, c := range cands {
				spec := vc.calleeSpec(FuncName(c))
				if spec == nil || !spec.HasAssign {
					all("call through func value to " + FuncName(c) + " without assigns clause")
					return nil
				}
				for _, cl := range spec.Assigns {
					pats = append(pats, f.typeLevelPats(c, cl)...)
				}
			}
			return pats
		}
		// a call through a function-valued variable or field that has a contract
		if name := funcVarName(f.fn, cc.Value); name != "" {
			if spec := vc.Eng.Spec.Funcs[FuncName(f.fn)+"."+name]; spec != nil && spec.HasAssign {
				if len(spec.Assigns) == 0 {
					return nil
				}
			}
		}
		if ld, ok := cc.Value.(*ssa.UnOp); ok {
			if fa, ok := ld.X.(*ssa.FieldAddr); ok {
				if pt, ok := fa.X.Type().Underlying().(*types.Pointer); ok {
					if st0, ok := pt.Elem().Underlying().(*types.Struct); ok {
						if spec := vc.Eng.Spec.Funcs[ifaceKey(pt.Elem(), st0.Field(fa.Field).Name())]; spec != nil && spec.HasAssign && len(spec.Assigns) == 0 {
							return nil
						}
					}
				}
			}
		}
		all("dynamic call")
		return nil
	}
	full := callee.RelString(nil)
	if o := callee.Origin(); o != nil {
		full = o.RelString(nil)
	}
	if ps, ok := stdSpecMods(f, full, cc); ok {
		return ps
	}
	if spec := vc.calleeSpec(FuncName(callee)); spec != nil {
		if !spec.HasAssign {
			all("call to " + FuncName(callee) + " whose contract has no assigns")
			return nil
		}
		if len(spec.Assigns) == 0 {
			return nil
		}
		// assigns evaluated with loop-varying arguments: use type-level patterns
		for _, c := range spec.Assigns {
			pats = append(pats, f.typeLevelPats(callee, c)...)
		}
		return pats
	}
	if callee.Blocks != nil && inlinable(callee) {
		// scan the callee body for writes, at type level
		return f.scanCalleeWrites(callee, all, 0)
	}
	if vc.isPureExternal(full) {
		return nil
	}
	all("call to " + FuncName(callee))
	return nil
}

// typeLevelPats gives patterns for an assigns clause without knowing the
// argument values: only the trailing field/element steps are constrained.
func (f *frame) typeLevelPats(callee *ssa.Function, c *Clause) []modPat {
	vc := f.vc
	// evaluate the address with placeholder arguments to obtain the step suffix
	env := &Env{vc: vc, st: f.entry, old: f.entry, vars: map[string]Val{}, fn: callee, specFile: c.File}
	for _, p := range callee.Params {
		env.vars[p.Name()] = Val{T: "Null", Typ: p.Type()}
	}
	for _, fv := range callee.FreeVars {
		// captured variables of a closure under contract: placeholders too
		env.vars["&"+fv.Name()] = Val{T: "Null", Typ: fv.Type()}
	}
	loc, t, steps, ok := vc.specAddr(env, c.Expr)
	if !ok {
		var ps []modPat
		for _, s := range HeapSorts {
			ps = append(ps, modPat{sort: s, all: true})
		}
		return ps
	}
	// a ghost variable is one fixed cell: keep it exact
	base := ""
	if id, isId := c.Expr.(*SIdent); isId && vc.Eng.Spec.Ghosts[id.Name] != nil {
		base = loc
	}
	var pats []modPat
	for _, lf := range vc.leaves(t) {
		ss := append(append([]step{}, steps...), lf.steps...)
		for i := range ss {
			ss[i].idx = ""
		}
		pats = append(pats, modPat{sort: lf.sort, base: base, steps: ss})
	}
	return pats
}

func (f *frame) scanCalleeWrites(callee *ssa.Function, all func(string), depth int) []modPat {
	vc := f.vc
	var pats []modPat
	if depth > maxInlineDepth {
		all("deep call chain under " + FuncName(callee))
		return nil
	}
	for _, b := range callee.Blocks {
		for _, ins := range b.Instrs {
			switch x := ins.(type) {
			case *ssa.Store:
				if a, ok := x.Addr.(*ssa.Alloc); ok && !escapes(a) {
					continue
				}
				t := x.Addr.Type().Underlying().(*types.Pointer).Elem()
				var steps []step
				switch a := x.Addr.(type) {
				case *ssa.FieldAddr:
					stT := a.X.Type().Underlying().(*types.Pointer).Elem()
					steps = []step{{fld: vc.sorts.FieldID(stT, a.Field)}}
				case *ssa.IndexAddr:
					steps = []step{{elem: true}}
				}
				for _, lf := range vc.leaves(t) {
					pats = append(pats, modPat{sort: lf.sort, steps: append(append([]step{}, steps...), lf.steps...), all: len(steps) == 0 && len(lf.steps) == 0})
				}
			case *ssa.MapUpdate:
				pats = append(pats, vc.mapModPats(x.Map.Type())...)
			case *ssa.Call:
				li := &loopInfo{blocks: map[*ssa.BasicBlock]bool{}}
				pats = append(pats, f.callModPats(x.Common(), li, all, func(ssa.Value) bool { return false })...)
			case *ssa.Go, *ssa.Defer:
				all("go/defer in callee " + FuncName(callee))
			}
		}
	}
	return pats
}

// autoPattern builds a multi-pattern from element-address terms (at_ s q) and
// string-index terms (str.at_ s q) whose index is exactly a bound variable.
// It returns "" unless every bound variable is covered.
func autoPattern(body string, qvars []string) string {
	found := map[string]string{}
	for _, head := range []string{"(at_ ", "(str.at_ ", "(Elem "} {
		for i := 0; i+len(head) < len(body); i++ {
			if !strings.HasPrefix(body[i:], head) {
				continue
			}
			j := i + len(head)
			end := j + sexprEnd(body[j:])
			if end >= len(body) || body[end] != ' ' {
				continue
			}
			k := end + 1
			e2 := k + sexprEnd(body[k:])
			if e2 >= len(body) || body[e2] != ')' {
				continue
			}
			idx := body[k:e2]
			for _, q := range qvars {
				if idx == q {
					term := body[i : e2+1]
					// skip terms nested inside another quantifier's binder using the same name
					if _, ok := found[q]; !ok {
						found[q] = term
					}
				}
			}
		}
	}
	var pats []string
	seen := map[string]bool{}
	for _, q := range qvars {
		t, ok := found[q]
		if !ok {
			return ""
		}
		if !seen[t] {
			seen[t] = true
			pats = append(pats, t)
		}
	}
	return strings.Join(pats, " ")
}

// specPlace returns the memory location denoted by an expression that names
// a struct stored in memory (slice element or field of such), so that field
// selections load a single cell instead of the whole struct.
func (vc *VC) specPlace(env *Env, e SExpr) (string, types.Type, bool) {
	switch x := e.(type) {
	case *SIndex:
		if _, star := x.I.(*SStar); star {
			return "", nil, false
		}
		v := vc.evalSpec(env, x.X)
		sl, ok := v.Typ.Underlying().(*types.Slice)
		if !ok {
			return "", nil, false
		}
		if _, isStruct := sl.Elem().Underlying().(*types.Struct); !isStruct {
			return "", nil, false
		}
		i := vc.evalSpec(env, x.I)
		return App("at_", v.T, i.T), sl.Elem(), true
	case *SField:
		if loc, t, ok := vc.specPlace(env, x.X); ok {
			if st, isS := t.Underlying().(*types.Struct); isS {
				if idx, ft := findField(st, x.Name); idx >= 0 {
					if _, inner := ft.Underlying().(*types.Struct); inner {
						return App("Fld", loc, fmt.Sprint(vc.sorts.FieldID(t, idx))), ft, true
					}
				}
			}
			return "", nil, false
		}
		// pointer-to-struct value . field-of-struct-type
		if id, isIdent := x.X.(*SIdent); isIdent {
			_ = id
		}
		v := vc.evalSpec(env, x.X)
		if p, isP := v.Typ.Underlying().(*types.Pointer); isP {
			if st, isS := p.Elem().Underlying().(*types.Struct); isS {
				if idx, ft := findField(st, x.Name); idx >= 0 {
					if _, inner := ft.Underlying().(*types.Struct); inner {
						return App("Fld", v.T, fmt.Sprint(vc.sorts.FieldID(p.Elem(), idx))), ft, true
					}
				}
			}
		}
	}
	return "", nil, false
}

// specArrayLoc: the memory location of an array-typed field p.f (p a pointer to
// a struct, or a struct place).
func (vc *VC) specArrayLoc(env *Env, e SExpr) (string, *types.Array, bool) {
	x, ok := e.(*SField)
	if !ok {
		return "", nil, false
	}
	var base string
	var stT types.Type
	if loc, t, ok := vc.specPlace(env, x.X); ok {
		base, stT = loc, t
	} else {
		if id, isId := x.X.(*SIdent); isId {
			if _, bound := env.bound[id.Name]; !bound && env.lookup == nil && env.vars[id.Name].T == "" {
				return "", nil, false
			}
		}
		v := vc.evalSpec(env, x.X)
		p, isP := v.Typ.Underlying().(*types.Pointer)
		if !isP {
			return "", nil, false
		}
		base, stT = v.T, p.Elem()
	}
	st, isS := stT.Underlying().(*types.Struct)
	if !isS {
		return "", nil, false
	}
	idx, ft := findField(st, x.Name)
	if idx < 0 {
		return "", nil, false
	}
	at, isA := ft.Underlying().(*types.Array)
	if !isA {
		return "", nil, false
	}
	return App("Fld", base, fmt.Sprint(vc.sorts.FieldID(stT, idx))), at, true
}
