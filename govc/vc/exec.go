package vc

import (
	"sort"
	"fmt"
	"go/token"
	"go/types"
	"strings"

	"golang.org/x/tools/go/ssa"
)

// FuncName is the package-qualified short name used to key contracts and
// obligations, e.g. index.(newlines).lineStart.
func FuncName(fn *ssa.Function) string {
	if fn.Pkg != nil {
		return fn.Pkg.Pkg.Name() + "." + fn.RelString(fn.Pkg.Pkg)
	}
	if fn.Parent() != nil && fn.Parent().Pkg != nil {
		return fn.Parent().Pkg.Pkg.Name() + "." + fn.RelString(fn.Parent().Pkg.Pkg)
	}
	if o := fn.Origin(); o != nil && o.Pkg != nil {
		return o.Pkg.Pkg.Name() + "." + fn.RelString(o.Pkg.Pkg)
	}
	return fn.RelString(nil)
}

// frame is one function instance being executed symbolically.
type frame struct {
	vc      *VC
	fn      *ssa.Function
	prefix  string
	vals    map[ssa.Value]Val
	spec    *FuncSpec
	top     bool // the function under verification (ensures are obligations)
	guard   string
	loops   map[*ssa.BasicBlock]*loopInfo
	back    map[[2]int]bool
	inB     map[*ssa.BasicBlock]string
	outSt   map[*ssa.BasicBlock]*State
	edgeG   map[[2]int]string
	rets    []retInfo
	entry   *State // state at frame entry (for old())
	params  []Val
	defers  []deferred
	results []string // named result allocs (unused)
	depth   int
	hdr     map[*ssa.BasicBlock]*hdrInfo
	declFrames map[*loopInfo]*declFrame
	assertHit  map[int]bool
	closureBindings []Val // captured cells of the closure whose contract is being applied
	curBlock *ssa.BasicBlock // block being executed
}

// declFrame is a loop frame declared with a loop-level assigns clause.
type declFrame struct {
	pats []modPat
	top  string // allocation mark before the loop: younger cells are free to change
	autoMaps map[string]bool // key-presence heaps whose cells were added to the frame automatically
}

// checkMapWrite: a map update/delete inside a loop whose declared frame names
// maps of that key sort must hit one of the named map objects (or a map
// allocated inside the loop).
func (f *frame) checkMapWrite(b *ssa.BasicBlock, m Val, in string, pos token.Pos, what string) {
	vc := f.vc
	_, mp, _, _ := vc.mapHeaps(m.Typ)
	for _, li := range f.sortedDeclLoops() {
		df := f.declFrames[li]
		if !li.blocks[b] || df.autoMaps[mp] {
			continue
		}
		var ms []string
		for _, p := range df.pats {
			if p.sort != mp {
				continue
			}
			if p.all {
				ms = append(ms, "true")
			} else if p.base != "" {
				ms = append(ms, Eq(m.T, p.base))
			}
		}
		ms = append(ms, App(">", App("rt", m.T), df.top))
		vc.obligeIn(f, "loop-assigns", fmt.Sprintf("loop%d:%s", li.ordinal, what), in, Or(ms...), pos, "map write stays inside the loop's declared assigns frame")
	}
}

// checkWrite emits, for every enclosing loop with a declared frame, the
// obligation that a write to addr (value type t) stays inside that frame.
func (f *frame) checkWrite(b *ssa.BasicBlock, addr string, t types.Type, in string, pos token.Pos, what string) {
	vc := f.vc
	for _, li := range f.sortedDeclLoops() {
		df := f.declFrames[li]
		if !li.blocks[b] {
			continue
		}
		for _, lf := range vc.leaves(t) {
			if hasElemStep(lf.steps) {
				vc.unsupported("write of array-containing value inside loop with declared frame")
				continue
			}
			l := applySteps(addr, lf.steps)
			var ms []string
			for _, p := range df.pats {
				if p.sort == lf.sort {
					ms = append(ms, p.matchCond(l))
				}
			}
			ms = append(ms, App(">", App("rt", l), df.top))
			vc.obligeIn(f, "loop-assigns", fmt.Sprintf("loop%d:%s", li.ordinal, what), in, Or(ms...), pos, "write stays inside the loop's declared assigns frame")
		}
	}
}

// checkCallFrame: a callee's frame must be inside every enclosing declared loop frame.
func (f *frame) checkCallFrame(b *ssa.BasicBlock, calleePats []modPat, preTop string, in string, pos token.Pos, what string) {
	vc := f.vc
	for _, li := range f.sortedDeclLoops() {
		df := f.declFrames[li]
		if !li.blocks[b] {
			continue
		}
		for _, srt := range vc.allHeaps() {
			if !patsTouch(calleePats, srt) {
				continue
			}
			sk := vc.fresh("lf_l", "Loc")
			var cm, lm []string
			for _, p := range calleePats {
				if p.sort == srt {
					cm = append(cm, p.matchCond(sk))
				}
			}
			for _, p := range df.pats {
				if p.sort == srt {
					lm = append(lm, p.matchCond(sk))
				}
			}
			lm = append(lm, App(">", App("rt", sk), df.top))
			vc.obligeIn(f, "loop-assigns", fmt.Sprintf("loop%d:%s:%s", li.ordinal, what, srt), in, Implies(Or(cm...), Or(lm...)), pos, "callee's assigns frame stays inside the loop's declared assigns frame")
		}
	}
}

type hdrInfo struct {
	measure string // decreases term at header
	st      *State // state right after havoc
}

type retInfo struct {
	guard string
	vals  []Val
	st    *State
	pos   token.Pos
	blk   *ssa.BasicBlock
}

type deferred struct {
	call   *ssa.Defer
	guard  string
	inLoop bool // registered inside a loop: runs an unknown number of times at exit
}

func (vc *VC) newFrame(fn *ssa.Function, spec *FuncSpec, top bool, guard string, depth int) *frame {
	vc.nfresh++
	f := &frame{vc: vc, fn: fn, prefix: fmt.Sprintf("f%d_", vc.nfresh), vals: map[ssa.Value]Val{}, spec: spec, top: top, guard: guard,
		inB: map[*ssa.BasicBlock]string{}, outSt: map[*ssa.BasicBlock]*State{}, edgeG: map[[2]int]string{}, depth: depth, hdr: map[*ssa.BasicBlock]*hdrInfo{}, assertHit: map[int]bool{}}
	f.loops, f.back = findLoops(fn)
	if spec != nil {
		for _, li := range f.loops {
			li.spec = spec.Loops[li.ordinal]
		}
	}
	return f
}

// val returns the symbolic value of an SSA value in this frame.
func (f *frame) val(v ssa.Value) Val {
	if x, ok := f.vals[v]; ok {
		return x
	}
	vc := f.vc
	switch c := v.(type) {
	case *ssa.Const:
		return vc.constVal(c)
	case *ssa.Global:
		return Val{T: vc.globalLoc(c), Typ: c.Type()}
	case *ssa.Function:
		return Val{T: vc.funcLoc(c), Typ: c.Type(), Clo: &Closure{Fn: c}}
	case *ssa.Builtin:
		return Val{T: "Null", Typ: c.Type()}
	}
	// value from a block not executed yet (should not happen in RPO) or unsupported
	vc.unsupported("use of undefined SSA value %s (%T) in %s", v.Name(), v, FuncName(f.fn))
	x := Val{T: vc.fresh("undef", vc.sorts.SortOf(v.Type())), Typ: v.Type()}
	f.vals[v] = x
	return x
}

func (vc *VC) constVal(c *ssa.Const) Val {
	t := c.Type()
	if c.Value == nil {
		return Val{T: vc.zeroVal(t), Typ: t}
	}
	switch u := t.Underlying().(type) {
	case *types.Basic:
		switch {
		case u.Info()&types.IsBoolean != 0:
			return Val{T: fmt.Sprint(c.Value.String() == "true"), Typ: t}
		case u.Info()&types.IsInteger != 0:
			s := c.Value.ExactString()
			if strings.HasPrefix(s, "-") {
				s = "(- " + s[1:] + ")"
			}
			return Val{T: s, Typ: t}
		case u.Info()&types.IsString != 0:
			return Val{T: vc.strConst(constantString(c)), Typ: t}
		case u.Info()&types.IsFloat != 0:
			f := c.Float64()
			s := fmt.Sprintf("%.12f", f)
			if f < 0 {
				s = fmt.Sprintf("(- %.12f)", -f)
			}
			return Val{T: s, Typ: t}
		}
	}
	vc.unsupported("constant %s of type %s", c, t)
	return Val{T: vc.fresh("const", vc.sorts.SortOf(t)), Typ: t}
}

func constantString(c *ssa.Const) string {
	s := c.Value.ExactString()
	if u, err := unquote(s); err == nil {
		return u
	}
	return s
}

func (vc *VC) globalLoc(g *ssa.Global) string {
	return vc.fixedLoc("g:"+g.RelString(nil), false)
}

// fixedLoc gives a pre-existing object (global, function, ghost cell) its own
// root id. Program objects get ids 1000.. (top_0 >= 1000000); ghost cells get
// negative ids, which no program pointer (rt >= 0) can alias.
func (vc *VC) fixedLoc(k string, ghost bool) string {
	if vc.locIDs == nil {
		vc.locIDs = map[string]string{}
	}
	if n, ok := vc.locIDs[k]; ok {
		return n
	}
	var n string
	if ghost {
		n = fmt.Sprintf("(L (- %d) PNil)", len(vc.locIDs)+2)
	} else {
		n = fmt.Sprintf("(L %d PNil)", len(vc.locIDs)+1000)
	}
	vc.locIDs[k] = n
	return n
}

func (vc *VC) funcLoc(fn *ssa.Function) string {
	return vc.fixedLoc("f:"+fn.RelString(nil), false)
}

// run executes the frame from an initial state and returns the merged exit.
func (f *frame) run(st0 *State) {
	vc := f.vc
	f.entry = st0.Clone()
	order := rpo(f.fn, f.back)
	for _, b := range order {
		var st *State
		var in string
		// collect forward incoming edges
		type inc struct {
			pred  *ssa.BasicBlock
			guard string
			st    *State
			idx   int // index of pred in b.Preds (for phis)
		}
		var incs []inc
		for pi, p := range b.Preds {
			if f.back[[2]int{p.Index, b.Index}] {
				continue
			}
			g, ok := f.edgeG[[2]int{p.Index, b.Index}]
			if !ok {
				continue // unreachable predecessor (e.g. recover block)
			}
			incs = append(incs, inc{p, g, f.outSt[p], pi})
		}
		li := f.loops[b]
		if b.Index == 0 {
			in = f.guard
			st = st0.Clone()
		} else {
			if len(incs) == 0 {
				continue // unreachable
			}
			var gs []string
			for _, i := range incs {
				gs = append(gs, i.guard)
			}
			in = vc.define(f.prefix+"in"+fmt.Sprint(b.Index), "Bool", Or(gs...))
			// merge states
			st = &State{H: map[string]string{}}
			for _, srt := range vc.allHeaps() {
				same := true
				for _, i := range incs[1:] {
					if i.st.H[srt] != incs[0].st.H[srt] {
						same = false
					}
				}
				if same {
					st.H[srt] = incs[0].st.H[srt]
				} else {
					h := vc.fresh(f.prefix+"H"+srt+"_b"+fmt.Sprint(b.Index), vc.heapSort(srt))
					for _, i := range incs {
						vc.assume(i.guard, Eq(h, i.st.H[srt]))
					}
					st.H[srt] = h
				}
			}
			sameTop := true
			for _, i := range incs[1:] {
				if i.st.Top != incs[0].st.Top {
					sameTop = false
				}
			}
			if sameTop {
				st.Top = incs[0].st.Top
			} else {
				tp := vc.fresh(f.prefix+"top_b"+fmt.Sprint(b.Index), "Int")
				for _, i := range incs {
					vc.assume(i.guard, Eq(tp, i.st.Top))
				}
				st.Top = tp
			}
		}
		if li != nil {
			// ---- loop header: check invariants on entry, havoc, assume ----
			if f.top {
				if vc.loopPre == nil {
					vc.loopPre = map[int]*State{}
				}
				vc.loopPre[li.ordinal] = st.Clone()
			}
			for _, i := range incs {
				f.checkInvariants(li, b, i.idx, i.guard, i.st, "entry", nil)
			}
			if b.Index == 0 {
				vc.unsupported("loop header is the entry block in %s", FuncName(f.fn))
			}
			pre := st
			entryIdx := -1
			if len(incs) > 0 {
				entryIdx = incs[0].idx
			}
			if len(incs) > 1 && li.spec != nil && li.spec.HasAssign {
				vc.unsupported("loop %d of %s has several entry edges; loop-level assigns needs a single preheader", li.ordinal, FuncName(f.fn))
			}
			st = f.havocLoop(li, pre, in, entryIdx)
			// phis become fresh
			for _, ins := range b.Instrs {
				phi, ok := ins.(*ssa.Phi)
				if !ok {
					break
				}
				f.vals[phi] = f.freshVal(phi.Name()+"_"+sanitize(phi.Comment), phi.Type(), in, st)
				if f.top && entryIdx >= 0 && f.vals[phi].T != "" {
					// replay hint: in the first iteration the loop state is the entry state
					vc.FirstIter = append(vc.FirstIter, Eq(f.vals[phi].T, f.val(phi.Edges[entryIdx]).T))
				}
			}
			if f.top {
				for _, srt := range vc.allHeaps() {
					if st.H[srt] != pre.H[srt] {
						vc.FirstIter = append(vc.FirstIter, Eq(st.H[srt], pre.H[srt]))
					}
				}
			}
			// assume invariants
			for _, c := range f.invariantClauses(li) {
				t := f.evalInvariant(li, b, -1, c, st)
				vc.assume(in, t)
			}
			h := &hdrInfo{st: st.Clone()}
			if li.spec != nil && li.spec.Decreases != nil {
				env := f.loopEnv(li, b, -1, st)
				m := vc.evalSpec(env, li.spec.Decreases.Expr)
				h.measure = vc.define(f.prefix+"measure", "Int", m.T)
			}
			f.hdr[b] = h
		} else {
			for _, ins := range b.Instrs {
				phi, ok := ins.(*ssa.Phi)
				if !ok {
					break
				}
				srt := vc.sorts.SortOf(phi.Type())
				if len(incs) == 1 {
					f.vals[phi] = f.val(phi.Edges[incs[0].idx])
					continue
				}
				name := vc.fresh(f.prefix+phi.Name()+"_"+sanitize(phi.Comment), srt)
				var clo *Closure
				for _, i := range incs {
					ev := f.val(phi.Edges[i.idx])
					vc.assume(i.guard, Eq(name, ev.T))
					clo = ev.Clo
				}
				_ = clo
				f.vals[phi] = Val{T: name, Typ: phi.Type()}
			}
		}
		f.inB[b] = in
		f.execBlock(b, in, st)
	}
}

// freshVal makes an unconstrained value of type t with its type invariants
// (integer range, well-formed slices/pointers) assumed under guard.
func (f *frame) freshVal(hint string, t types.Type, guard string, st *State) Val {
	vc := f.vc
	if tup, ok := t.(*types.Tuple); ok {
		v := Val{Typ: t}
		for i := 0; i < tup.Len(); i++ {
			v.Tuple = append(v.Tuple, f.freshVal(fmt.Sprintf("%s_%d", hint, i), tup.At(i).Type(), guard, st))
		}
		return v
	}
	srt := vc.sorts.SortOf(t)
	vc.flushSortDecls()
	n := vc.fresh(f.prefix+hint, srt)
	vc.assumeTypeInv(n, t, guard, st.Top)
	return Val{T: n, Typ: t}
}

// assumeTypeInv assumes the representation invariants of a value of type t.
func (vc *VC) assumeTypeInv(term string, t types.Type, guard, top string) {
	switch u := t.Underlying().(type) {
	case *types.Struct:
		sn := vc.sorts.SortOf(t)
		for i := 0; i < u.NumFields(); i++ {
			vc.assumeTypeInv(App(fmt.Sprintf("%s.f%d", sn, i), term), u.Field(i).Type(), guard, top)
		}
		return
	case *types.Array:
		return
	}
	switch vc.sorts.SortOf(t) {
	case "Int":
		if r := RangeOf(t, term); r != "true" {
			vc.assume(guard, r)
		}
	case "Slice":
		vc.assume(guard, App("wf-slice", term, top))
	case "Loc":
		vc.assume(guard, App("wf-loc", term, top))
	case "Iface":
		vc.assume(guard, App("wf-iface", term, top))
	}
}

// invariantClauses returns the user invariants plus the free range-loop one.
func (f *frame) invariantClauses(li *loopInfo) []*Clause {
	var cs []*Clause
	if _, _, ok := rangeLoopParts(li.header); ok {
		// every range-over-slice loop gets its index bounds for free (they are
		// still checked like any invariant)
		cs = append(cs, &Clause{Kind: "invariant", Tag: "auto.range", Text: "-1 <= $i && ($i == -1 || $i < n)   [automatic for range loops]"})
	}
	if li.spec != nil {
		cs = append(cs, li.spec.Invariants...)
	}
	return cs
}

// rangeLoopParts recognises the header of a range-over-slice loop:
//
//	i = phi [-1, next] #rangeindex ; next = i + 1 ; if next < n goto body else done
func rangeLoopParts(h *ssa.BasicBlock) (phi *ssa.Phi, n ssa.Value, ok bool) {
	for _, ins := range h.Instrs {
		p, isPhi := ins.(*ssa.Phi)
		if !isPhi {
			break
		}
		if p.Comment == "rangeindex" {
			phi = p
		}
	}
	if phi == nil {
		return nil, nil, false
	}
	iff, isIf := h.Instrs[len(h.Instrs)-1].(*ssa.If)
	if !isIf {
		return nil, nil, false
	}
	cmp, isCmp := iff.Cond.(*ssa.BinOp)
	if !isCmp || cmp.Op != token.LSS {
		return nil, nil, false
	}
	inc, isInc := cmp.X.(*ssa.BinOp)
	if !isInc || inc.Op != token.ADD || inc.X != phi {
		return nil, nil, false
	}
	return phi, cmp.Y, true
}

// loopEnv builds the spec environment at loop header b. predIdx selects the
// incoming edge whose phi operands are used (-1: the header's own phi values).
func (f *frame) loopEnv(li *loopInfo, b *ssa.BasicBlock, predIdx int, st *State) *Env {
	env := f.baseEnv(st)
	for _, ins := range li.header.Instrs {
		if nx, ok := ins.(*ssa.Next); ok && !nx.IsString {
			if rg, isRange := nx.Iter.(*ssa.Range); isRange {
				if _, isMap := rg.X.Type().Underlying().(*types.Map); isMap {
					_, mp, _, _ := f.vc.mapHeaps(rg.X.Type())
					env.visLoc, env.visHeap = f.visLocOf(rg), mp
				}
			}
		}
	}
	env.lookup = func(name string) (Val, bool) {
		// $i: range index phi
		for _, ins := range b.Instrs {
			phi, ok := ins.(*ssa.Phi)
			if !ok {
				break
			}
			if isRangePhi(name, phi) || phi.Comment == name {
				if predIdx >= 0 {
					return f.val(phi.Edges[predIdx]), true
				}
				return f.val(phi), true
			}
		}
		// phis of enclosing loops (their headers dominate b): innermost first
		var best *ssa.BasicBlock
		var bestVal ssa.Value
		for h, oli := range f.loops {
			if h == b || !oli.blocks[b] {
				continue
			}
			for _, ins := range h.Instrs {
				phi, ok := ins.(*ssa.Phi)
				if !ok {
					break
				}
				if isRangePhi(name, phi) || (name != "$i" && name != "$n" && phi.Comment == name) {
					if best == nil || best.Dominates(h) {
						best, bestVal = h, phi
					}
				}
			}
		}
		if bestVal != nil && (name == "$i" || name == "$n") {
			return f.val(bestVal), true
		}
		if v, ok := f.lookupVar(name, b, st); ok {
			return v, true
		}
		if bestVal != nil {
			return f.val(bestVal), true
		}
		return Val{}, false
	}
	env.outer = func(name string) (Val, bool) {
		var best *ssa.BasicBlock
		var bestVal ssa.Value
		for h, oli := range f.loops {
			if h == b || !oli.blocks[b] {
				continue
			}
			for _, ins := range h.Instrs {
				phi, ok := ins.(*ssa.Phi)
				if !ok {
					break
				}
				if phi.Comment == name && (best == nil || best.Dominates(h)) {
					best, bestVal = h, phi
				}
			}
		}
		if bestVal == nil {
			return Val{}, false
		}
		if _, done := f.vals[bestVal]; !done {
			return Val{}, false
		}
		return f.val(bestVal), true
	}
	return env
}

func (f *frame) evalInvariant(li *loopInfo, b *ssa.BasicBlock, predIdx int, c *Clause, st *State) string {
	if c.Tag == "auto.range" {
		phi, n, _ := rangeLoopParts(b)
		var iv string
		if predIdx >= 0 {
			iv = f.val(phi.Edges[predIdx]).T
		} else {
			iv = f.val(phi).T
		}
		return And(App("<=", "(- 1)", iv), Or(Eq(iv, "(- 1)"), App("<", iv, f.val(n).T)))
	}
	env := f.loopEnv(li, b, predIdx, st)
	v := f.vc.evalSpec(env, c.Expr)
	return v.T
}

func (f *frame) checkInvariants(li *loopInfo, h *ssa.BasicBlock, predIdx int, guard string, st *State, when string, hd *hdrInfo) {
	vc := f.vc
	if li.spec == nil && f.top && len(f.invariantClauses(li)) == 0 {
		vc.unsupported("loop %d of %s has no invariant block", li.ordinal, FuncName(f.fn))
	}
	for _, c := range f.invariantClauses(li) {
		t := f.evalInvariant(li, h, predIdx, c, st)
		if f.top {
			anchor := fmt.Sprintf("loop%d.%d", li.ordinal, c.Idx)
			pos := fmt.Sprintf("%s:%d", strings.TrimPrefix(c.File, "/repo/"), c.Line)
			if c.Tag != "" {
				anchor = fmt.Sprintf("loop%d.%s", li.ordinal, c.Tag)
				pos = ""
			}
			vc.oblige("invariant-"+when, anchor, guard, t, pos, c.Text)
		}
	}
	if f.top && f.spec != nil && len(f.spec.Preserves) > 0 && f.entry != nil {
		// the function's declared-preserved locations are an implicit invariant of every loop
		penv := f.baseEnv(f.entry)
		for pi, p := range vc.assignPats(penv, f.spec.Preserves) {
			hn, ho := vc.heapOf(st, p.sort), vc.heapOf(f.entry, p.sort)
			if hn == ho {
				continue
			}
			sk := vc.fresh("pres_l", "Loc")
			goal := Implies(And(p.matchCond(sk), App("<=", App("rt", sk), f.entry.Top)), Eq(App("select", hn, sk), App("select", ho, sk)))
			vc.oblige("invariant-"+when, fmt.Sprintf("loop%d.preserves.%d", li.ordinal, pi+1), guard, goal, "", "declared-preserved locations are unchanged at the loop head")
		}
	}
	if when == "preserved" && hd != nil && hd.measure != "" && f.top {
		env := f.loopEnv(li, h, predIdx, st)
		m := vc.evalSpec(env, li.spec.Decreases.Expr)
		vc.oblige("decreases", fmt.Sprintf("loop%d", li.ordinal), guard, And(App("<", m.T, hd.measure), App(">=", hd.measure, "0")), "", li.spec.Decreases.Text)
	}
}

// havocLoop produces the state at an arbitrary iteration of the loop.
func (f *frame) havocLoop(li *loopInfo, pre *State, guard string, entryIdx int) *State {
	vc := f.vc
	var pats []modPat
	if li.spec != nil && li.spec.HasAssign && f.top {
		// declared loop frame: evaluated in the state before the loop; every
		// write inside the loop is checked against it (execInstr)
		// names denote the values flowing into the loop (entry-edge phi operands)
		env := f.loopEnv(li, li.header, entryIdx, pre)
		pats = vc.assignPats(env, li.spec.Assigns)
		// function-private locals (non-escaping allocations made before the loop)
		// are implicitly part of every declared loop frame
		var locals []string
		localT := map[string]types.Type{}
		for v, val := range f.vals {
			if a, ok := v.(*ssa.Alloc); ok && !escapes(a) && val.T != "" {
				locals = append(locals, val.T)
				localT[val.T] = a.Type().Underlying().(*types.Pointer).Elem()
			}
		}
		sort.Strings(locals)
		for _, l := range locals {
			for _, lf := range vc.leaves(localT[l]) {
				pats = append(pats, modPat{sort: lf.sort, base: l, steps: lf.steps})
			}
		}
		// map updates / deletes inside the loop are not checked against the
		// declared frame one by one: their cells are added to it (exactly for a
		// loop-invariant map value, for all maps of the type otherwise), so the
		// havoc at the loop head covers them
		autoMaps := map[string]bool{}
		for b := range li.blocks {
			for _, ins := range b.Instrs {
				var mval ssa.Value
				switch x := ins.(type) {
				case *ssa.MapUpdate:
					mval = x.Map
				case *ssa.Call:
					if bi, ok := x.Call.Value.(*ssa.Builtin); ok && (bi.Name() == "delete" || bi.Name() == "clear") && len(x.Call.Args) > 0 {
						if _, isMap := x.Call.Args[0].Type().Underlying().(*types.Map); isMap {
							mval = x.Call.Args[0]
						}
					}
				}
				if mval == nil {
					continue
				}
				mps := vc.mapModPats(mval.Type())
				declared := false
				for _, p := range pats {
					if p.sort == mps[1].sort {
						declared = true // the loop's own assigns clause names maps of this key sort: writes are checked against it
					}
				}
				if declared {
					continue
				}
				autoMaps[mps[1].sort] = true
				if v, done := f.vals[mval]; done && !li.blocks[blockOf(mval)] {
					for i := range mps {
						mps[i].all = false
						mps[i].base = v.T
					}
				}
				pats = append(pats, mps...)
			}
		}
		if f.declFrames == nil {
			f.declFrames = map[*loopInfo]*declFrame{}
		}
		f.declFrames[li] = &declFrame{pats: pats, top: pre.Top, autoMaps: autoMaps}
	} else {
		pats = f.loopModPats(li, pre)
	}
	st := pre.Clone()
	for _, srt := range vc.allHeaps() {
		if !patsTouch(pats, srt) {
			continue
		}
		h := vc.fresh(f.prefix+"H"+srt+"_loop"+fmt.Sprint(li.ordinal), vc.heapSort(srt))
		if ax := frameAxiom(srt, h, pre.H[srt], pre.Top, pats); ax != "" {
			vc.assert(ax)
		}
		st.H[srt] = h
	}
	tp := vc.fresh(f.prefix+"top_loop"+fmt.Sprint(li.ordinal), "Int")
	vc.assert(App(">=", tp, pre.Top))
	st.Top = tp
	vc.assertHeapWF(st, pats)
	if f.top && f.spec != nil && len(f.spec.Preserves) > 0 && f.entry != nil {
		penv := f.baseEnv(f.entry)
		for _, p := range vc.assignPats(penv, f.spec.Preserves) {
			hn, ho := vc.heapOf(st, p.sort), vc.heapOf(f.entry, p.sort)
			if hn == ho {
				continue
			}
			vc.assert(fmt.Sprintf("(forall ((l! Loc)) (! (=> (and %s (<= (rt l!) %s)) (= (select %s l!) (select %s l!))) :pattern ((select %s l!))))", p.matchCond("l!"), f.entry.Top, hn, ho, hn))
		}
	}
	return st
}

// assertHeapWF states the well-formedness invariant for the havocked pointer
// heaps of st.
func (vc *VC) assertHeapWF(st *State, pats []modPat) {
	for _, srt := range []string{"Loc", "Slice", "Iface"} {
		if pats != nil && !patsTouch(pats, srt) {
			continue
		}
		h := st.H[srt]
		wf := map[string]string{"Loc": "wf-loc", "Slice": "wf-slice", "Iface": "wf-iface"}[srt]
		vc.assert(fmt.Sprintf("(forall ((l! Loc)) (! (%s (select %s l!) %s) :pattern ((select %s l!))))", wf, h, st.Top, h))
	}
	// a map has between 0 and 2^40 entries
	for _, key := range vc.extraOrder {
		if key != "MC" || (pats != nil && !patsTouch(pats, key)) {
			continue
		}
		h := vc.heapOf(st, key)
		vc.assert(fmt.Sprintf("(forall ((l! Loc)) (! (and (<= 0 (select %s l!)) (<= (select %s l!) 1099511627776)) :pattern ((select %s l!))))", h, h, h))
	}
	// values stored in maps are well-formed references too
	for _, key := range vc.extraOrder {
		if !strings.HasPrefix(key, "MV_") {
			continue
		}
		if pats != nil && !patsTouch(pats, key) {
			continue
		}
		var wf string
		switch {
		case strings.HasSuffix(key, "_Loc"):
			wf = "wf-loc"
		case strings.HasSuffix(key, "_Slice"):
			wf = "wf-slice"
		case strings.HasSuffix(key, "_Iface"):
			wf = "wf-iface"
		default:
			continue
		}
		h := vc.heapOf(st, key)
		ks := vc.mapKeySort[key]
		if ks == "" {
			continue
		}
		vc.assert(fmt.Sprintf("(forall ((l! Loc) (k! %s)) (! (%s (select (select %s l!) k!) %s) :pattern ((select (select %s l!) k!))))", ks, wf, h, st.Top, h))
	}
}

// execBlock runs the non-phi instructions of b.
func (f *frame) execBlock(b *ssa.BasicBlock, in string, st *State) {
	vc := f.vc
	f.curBlock = b
	for _, ins := range b.Instrs {
		if _, ok := ins.(*ssa.Phi); ok {
			continue
		}
		switch x := ins.(type) {
		case *ssa.If:
			c := f.val(x.Cond).T
			cn := vc.define(f.prefix+"c"+fmt.Sprint(b.Index), "Bool", c)
			f.setEdge(b, b.Succs[0], And(in, cn), st)
			f.setEdge(b, b.Succs[1], And(in, Not(cn)), st)
			f.outSt[b] = st
			return
		case *ssa.Jump:
			f.setEdge(b, b.Succs[0], in, st)
			f.outSt[b] = st
			return
		case *ssa.Return:
			f.checkAsserts(ins, in, st)
			f.runDefers(in, st)
			var vs []Val
			for _, r := range x.Results {
				vs = append(vs, f.val(r))
			}
			f.rets = append(f.rets, retInfo{guard: in, vals: vs, st: st.Clone(), pos: x.Pos(), blk: b})
			f.outSt[b] = st
			return
		case *ssa.Panic:
			f.runDefers(in, st)
			vc.obligeIn(f, "panic", vc.anchorAt(f.fn, x.Pos(), "call"), in, "false", x.Pos(), "explicit panic must be unreachable")
			f.outSt[b] = st
			return
		default:
			f.checkAsserts(ins, in, st)
			f.execInstr(ins, in, st)
		}
	}
	f.outSt[b] = st
}

// obligeIn records a safety obligation raised inside (possibly inlined) code.
func (vc *VC) obligeIn(f *frame, kind, anchor, guard, goal string, pos token.Pos, desc string) {
	if vc.Spec != nil && vc.Spec.MayPanic && (kind == "bounds" || kind == "nil" || kind == "panic" || kind == "div" || kind == "typeassert" || kind == "makeslice") {
		// the contract allows a panic here: not an obligation - but execution
		// only continues past this point when the operation did not panic
		if goal != "false" {
			vc.assume(guard, goal)
		}
		return
	}
	if vc.Spec != nil && kind == "panic" {
		for _, ok := range vc.Spec.PanicOK {
			if strings.Contains(anchor, ok) {
				vc.note("panic site %q in %s is allowed by the contract (may_panic_at %s)", anchor, FuncName(vc.Fn), ok)
				return
			}
		}
	}
	if !f.top {
		anchor = "inl(" + FuncName(f.fn) + ")" + anchor
	}
	vc.oblige(kind, anchor, guard, goal, vc.posOf(pos), desc)
}

func (f *frame) setEdge(from, to *ssa.BasicBlock, guard string, st *State) {
	key := [2]int{from.Index, to.Index}
	if f.back[key] {
		li := f.loops[to]
		// index of from in to.Preds
		idx := -1
		for i, p := range to.Preds {
			if p == from {
				idx = i
			}
		}
		f.checkInvariants(li, to, idx, guard, st, "preserved", f.hdr[to])
		return
	}
	if prev, ok := f.edgeG[key]; ok {
		// both branches of an If go to the same block
		f.edgeG[key] = Or(prev, guard)
		return
	}
	f.edgeG[key] = guard
}

func (f *frame) runDefers(in string, st *State) {
	// deferred calls are executed by RunDefers instructions; nothing here.
}

// blockOf: the block in which v is defined (nil for parameters, constants, globals).
func blockOf(v ssa.Value) *ssa.BasicBlock {
	if ins, ok := v.(ssa.Instruction); ok {
		return ins.Block()
	}
	return nil
}
