package vc

import (
	"fmt"
	"go/types"
	"strings"

	"golang.org/x/tools/go/ssa"
)

// Ghost variables are declared in contract files ("//@ ghost var name T").
// They live at fixed pre-existing locations and are read/written only by
// contracts (interface-method contracts use them to account for effects of
// calls whose implementation is not visible).
type GhostVar struct {
	Name string
	Type string
	File string
	Line int
}

func (vc *VC) ghostLoc(name string) string {
	return vc.fixedLoc("ghost:"+name, true)
}

// ghostVal reads a ghost variable in state st.
func (vc *VC) ghostVal(env *Env, name string) (Val, bool) {
	g := vc.Eng.Spec.Ghosts[name]
	if g == nil {
		return Val{}, false
	}
	t := vc.resolveGhostType(env, g)
	if t == nil {
		vc.unsupported("ghost var %s: cannot resolve type %s", name, g.Type)
		return Val{}, false
	}
	return Val{T: vc.loadVal(env.st, vc.ghostLoc(name), t, "true", false), Typ: t}, true
}

func (vc *VC) resolveGhostType(env *Env, g *GhostVar) types.Type {
	return vc.resolveTypeAt(env, g.File, g.Type)
}

// resolveTypeAt resolves a type expression written in the contract file
// `file`: first in the scope of the function under evaluation, then in the
// package whose directory holds the contract file (any of its file scopes).
func (vc *VC) resolveTypeAt(env *Env, file, text string) types.Type {
	if t := vc.typeInDirOf(file, text); t != nil {
		return t
	}
	if t := vc.resolveType(env, text); t != nil {
		return t
	}
	return vc.typeInAnyPackage(text)
}

// typeInAnyPackage resolves "*pkg.Name", "[]pkg.Name" or "pkg.Name" against
// every package of the program by package name (for types of packages that no
// file of the contract's own package imports, e.g. a dependency's type reached
// through a struct field). Ambiguous names resolve to nil.
func (vc *VC) typeInAnyPackage(text string) types.Type {
	wrap := []string{}
	for {
		if strings.HasPrefix(text, "*") {
			wrap = append(wrap, "*")
			text = text[1:]
		} else if strings.HasPrefix(text, "[]") {
			wrap = append(wrap, "[]")
			text = text[2:]
		} else {
			break
		}
	}
	i := strings.LastIndex(text, ".")
	if i <= 0 {
		return nil
	}
	pn, tn := text[:i], text[i+1:]
	var found types.Type
	for _, p := range vc.Eng.Prog.AllPackages() {
		if p.Pkg == nil || (p.Pkg.Name() != pn && p.Pkg.Path() != pn) {
			continue
		}
		if o, ok := p.Pkg.Scope().Lookup(tn).(*types.TypeName); ok {
			if found != nil && !types.Identical(found, o.Type()) {
				return nil
			}
			found = o.Type()
		}
	}
	if found == nil {
		return nil
	}
	for k := len(wrap) - 1; k >= 0; k-- {
		if wrap[k] == "*" {
			found = types.NewPointer(found)
		} else {
			found = types.NewSlice(found)
		}
	}
	return found
}

// typeInDirOf resolves a type expression in the package whose directory holds
// the given contract file (trying each of its file scopes, since imports are
// per file).
func (vc *VC) typeInDirOf(file, text string) types.Type {
	gd := file
	if i := strings.LastIndex(gd, "/"); i >= 0 {
		gd = gd[:i]
	}
	for tp, files := range vc.Eng.pkgFiles {
		if len(files) == 0 {
			continue
		}
		dir := vc.Eng.Prog.Fset.Position(files[0].Pos()).Filename
		if i := strings.LastIndex(dir, "/"); i >= 0 {
			dir = dir[:i]
		}
		if dir != gd {
			continue
		}
		for _, f := range files {
			if tv, err := types.Eval(vc.Eng.Prog.Fset, tp, f.End()-1, text); err == nil && tv.IsType() {
				return tv.Type
			}
		}
	}
	return nil
}

// ifaceKey names the contract of an interface method: pkg.Type.Method.
func ifaceKey(t types.Type, method string) string {
	if n, ok := t.(*types.Named); ok && n.Obj().Pkg() != nil {
		return n.Obj().Pkg().Name() + "." + n.Obj().Name() + "." + method
	}
	return types.TypeString(t, nil) + "." + method
}

// ifaceContractCall applies the contract attached to an interface method.
func (f *frame) ifaceContractCall(x ssa.CallInstruction, recv Val, args []Val, in string, st *State) (Val, bool) {
	cc := x.Common()
	key := ifaceKey(cc.Value.Type(), cc.Method.Name())
	return f.abstractContractCall(key, cc.Method.Type().(*types.Signature), x, recv, args, in, st)
}

// funcFieldContractCall applies the contract attached to a function-typed
// struct field ("pkg.Type.field") when the call goes through that field: the
// field plays the role of an interface method, `recv` is the struct pointer.
func (f *frame) funcFieldContractCall(x ssa.CallInstruction, args []Val, in string, st *State) (Val, bool) {
	cc := x.Common()
	// a function-valued parameter, captured variable or local variable: the
	// contract is keyed "<function>.<variable>"
	if name := funcVarName(f.fn, cc.Value); name != "" {
		if sig, ok := cc.Value.Type().Underlying().(*types.Signature); ok {
			key := FuncName(f.fn) + "." + name
			if r, ok := f.abstractContractCall(key, sig, x, Val{T: "Null", Typ: types.Typ[types.UnsafePointer]}, args, in, st); ok {
				return r, true
			}
		}
	}
	ld, ok := cc.Value.(*ssa.UnOp)
	if !ok {
		return Val{}, false
	}
	fa, ok := ld.X.(*ssa.FieldAddr)
	if !ok {
		return Val{}, false
	}
	pt, ok := fa.X.Type().Underlying().(*types.Pointer)
	if !ok {
		return Val{}, false
	}
	st0, ok := pt.Elem().Underlying().(*types.Struct)
	if !ok {
		return Val{}, false
	}
	sig, ok := cc.Value.Type().Underlying().(*types.Signature)
	if !ok {
		return Val{}, false
	}
	key := ifaceKey(pt.Elem(), st0.Field(fa.Field).Name())
	return f.abstractContractCall(key, sig, x, f.val(fa.X), args, in, st)
}

func (f *frame) abstractContractCall(key string, sig *types.Signature, x ssa.CallInstruction, recv Val, args []Val, in string, st *State) (Val, bool) {
	vc := f.vc
	spec := vc.Eng.Spec.Funcs[key]
	if spec == nil {
		return Val{}, false
	}
	pre := st.Clone()
	mkEnv := func(cur *State) *Env {
		env := &Env{vc: vc, st: cur, old: pre, vars: map[string]Val{}, fn: f.fn}
		env.vars["recv"] = recv
		for i := 0; i < sig.Params().Len() && i < len(args); i++ {
			name := sig.Params().At(i).Name()
			if i < len(spec.ParamNames) {
				name = spec.ParamNames[i]
			}
			if name == "" || name == "_" {
				name = fmt.Sprintf("arg%d", i)
			}
			a := args[i]
			a.Typ = sig.Params().At(i).Type()
			env.vars[name] = a
		}
		return env
	}
	env := mkEnv(pre)
	env.specFile = spec.File
	for _, c := range spec.Requires {
		t := vc.evalSpec(env, c.Expr)
		vc.obligeIn(f, "call-requires", fmt.Sprintf("%s.%d", key, c.Idx), in, t.T, x.Pos(), "precondition of "+key+": "+c.Text)
	}
	if !spec.HasAssign {
		vc.note("interface contract %s has no assigns clause: havoc", key)
		f.havocAllPreservingLocals(st, in, "interface call "+key)
		f.assumePreserved(spec, env, pre, st)
	} else {
		pats := vc.assignPats(env, spec.Assigns)
		if len(f.declFrames) > 0 && len(pats) > 0 {
			f.checkCallFrame(x.Block(), pats, pre.Top, in, x.Pos(), "call:"+key)
		}
		for _, srt := range vc.allHeaps() {
			if !patsTouch(pats, srt) {
				continue
			}
			h := vc.fresh(f.prefix+"H"+srt+"_icall", vc.heapSort(srt))
			if ax := frameAxiom(srt, h, pre.H[srt], pre.Top, pats); ax != "" {
				vc.assert(ax)
			}
			st.H[srt] = h
		}
		tp := vc.fresh(f.prefix+"top_icall", "Int")
		vc.assert(App(">=", tp, pre.Top))
		st.Top = tp
		if pats == nil {
			pats = []modPat{} // 'assigns nothing': no heap was havocked, nothing to re-assume
		}
		vc.assertHeapWF(st, pats)
	}
	var rtype types.Type = sig.Results()
	if sig.Results().Len() == 1 {
		rtype = sig.Results().At(0).Type()
	}
	res := f.freshVal(callName(x), rtype, in, st)
	post := mkEnv(st)
	post.specFile = spec.File
	switch sig.Results().Len() {
	case 0:
	case 1:
		post.vars["result"] = res
		post.vars["result0"] = res
	default:
		for i, r := range res.Tuple {
			post.vars[fmt.Sprintf("result%d", i)] = r
		}
	}
	for _, c := range vc.expandForeach(spec, post) {
		t := vc.evalSpec(post, c.Expr)
		vc.assume(in, t.T)
	}
	vc.note("interface contract %s (%s:%d) assumed of every implementation", key, strings.TrimPrefix(spec.File, "/repo/"), spec.Line)
	return res, true
}

// expandForeach returns the ensures clauses of spec including the per-field
// generated ones.
func (vc *VC) expandForeach(spec *FuncSpec, env *Env) []*Clause {
	out := append([]*Clause{}, spec.Ensures...)
	for _, fe := range spec.Foreach {
		t := vc.resolveType(env, fe.Type)
		if t == nil {
			if g := (&GhostVar{Type: fe.Type, File: fe.File}); g != nil {
				t = vc.resolveGhostType(env, g)
			}
		}
		if t == nil {
			vc.unsupported("foreach_field: cannot resolve %s", fe.Type)
			continue
		}
		sst, ok := t.Underlying().(*types.Struct)
		if !ok {
			continue
		}
		skip := map[string]bool{}
		for _, e := range fe.Except {
			skip[e] = true
		}
		for i := 0; i < sst.NumFields(); i++ {
			fl := sst.Field(i)
			b, isBasic := fl.Type().Underlying().(*types.Basic)
			if !isBasic || b.Info()&types.IsInteger == 0 || skip[fl.Name()] {
				continue
			}
			txt := strings.ReplaceAll(fe.Template, "$f", fl.Name())
			if b.Info()&types.IsUnsigned != 0 {
				txt = strings.ReplaceAll(txt, "$wrap(", b.Name()+"(")
			} else {
				txt = strings.ReplaceAll(txt, "$wrap(", "(")
			}
			ex, err := ParseSpecExpr(txt)
			if err != nil {
				vc.unsupported("foreach_field template: %v", err)
				continue
			}
			out = append(out, &Clause{Kind: "ensures", Text: txt, Expr: ex, Line: fe.Line, File: fe.File, Idx: len(out) + 1, Tag: "field." + fl.Name()})
		}
	}
	return out
}

// funcVarName: the source name of the function-valued variable v is read from
// (parameter, captured variable, address-taken local, phi of a local, or a
// value a debug reference names).
func funcVarName(fn *ssa.Function, v ssa.Value) string {
	switch x := v.(type) {
	case *ssa.Parameter:
		return x.Name()
	case *ssa.FreeVar:
		return x.Name()
	case *ssa.Phi:
		if x.Comment != "" {
			return x.Comment
		}
	case *ssa.UnOp:
		switch a := x.X.(type) {
		case *ssa.FreeVar:
			return a.Name()
		case *ssa.Alloc:
			return a.Comment
		}
	}
	for _, b := range fn.Blocks {
		for _, ins := range b.Instrs {
			if d, ok := ins.(*ssa.DebugRef); ok && d.X == v && !d.IsAddr {
				if obj := d.Object(); obj != nil {
					if _, isVar := obj.(*types.Var); isVar {
						return obj.Name()
					}
				}
			}
		}
	}
	return ""
}
