package vc

import (
	"fmt"
	"go/ast"
	"go/token"
	"go/types"
	"sort"
	"strings"

	"golang.org/x/tools/go/ssa"
)

// Obligation is one proof goal: facts[0:NLines] ∧ Guard ⇒ Goal.
type Obligation struct {
	Name   string
	Kind   string // bounds, nil, div, requires, ensures, invariant-entry, invariant-preserved, decreases, assigns, panic, cover...
	Func   string
	Guard  string
	Goal   string
	NLines int
	Pos    string
	Desc   string
	// Expect "unsat" for proof goals; vacuity covers expect "sat".
	ExpectSat bool
	// model extraction: terms to evaluate when sat
	ModelTerms []ModelTerm
	vc         *VC
}

type ModelTerm struct {
	Name string
	Term string
}

// VC holds everything generated for one function under verification.
type VC struct {
	Eng    *Engine
	Fn     *ssa.Function
	Spec   *FuncSpec
	sorts  *Sorts
	lines  []string
	nDecl  int
	nfresh int
	Obls   []*Obligation
	names  map[string]int
	strs   map[string]string
	absFns map[string]bool
	stateAxioms []*Axiom
	usedSpecFuncs map[string]bool
	LemmaOf string // non-empty: obligations are named <LemmaOf>#...
	loopPre map[int]*State // state in which loop N of the function under verification was entered

	Entry      *State
	Params     map[string]Val
	ParamOrder []string
	Notes      []string // abstractions applied (havocked calls etc.)
	Unsupp     []string
	depth      int
	sortFlush  int
	axiomsDone bool
	Variant    string
	FirstIter  []string // replay hints: loop-head state equals the state before the loop
	locIDs     map[string]string
	mapKeySort map[string]string // map value heap -> key sort
	extraHeaps map[string]string
	extraOrder []string
}

func (e *Engine) NewVC(fn *ssa.Function, spec *FuncSpec) *VC {
	vc := &VC{Eng: e, Fn: fn, Spec: spec, sorts: NewSorts(), names: map[string]int{}, strs: map[string]string{}, absFns: map[string]bool{}, Params: map[string]Val{}}
	return vc
}

func (vc *VC) flushSortDecls() {
	for vc.sortFlush < len(vc.sorts.structDecl) {
		vc.lines = append(vc.lines, vc.sorts.structDecl[vc.sortFlush])
		vc.sortFlush++
	}
}

func (vc *VC) declare(name, srt string) {
	vc.flushSortDecls()
	vc.lines = append(vc.lines, fmt.Sprintf("(declare-fun %s () %s)", name, srt))
}

func (vc *VC) fresh(hint, srt string) string {
	vc.nfresh++
	n := fmt.Sprintf("%s!%d", sanitize(hint), vc.nfresh)
	vc.declare(n, srt)
	return n
}

// define introduces a named constant equal to term.
func (vc *VC) define(hint, srt, term string) string {
	if !strings.ContainsAny(term, " (") {
		return term
	}
	vc.flushSortDecls()
	vc.nfresh++
	n := fmt.Sprintf("%s!%d", sanitize(hint), vc.nfresh)
	vc.lines = append(vc.lines, fmt.Sprintf("(define-fun %s () %s %s)", n, srt, term))
	return n
}

// defineConst introduces a declared constant constrained to equal term. Unlike
// define (a macro) the name survives in quantifier patterns, which must not
// contain ite.
func (vc *VC) defineConst(hint, srt, term string) string {
	n := vc.fresh(hint, srt)
	vc.lines = append(vc.lines, "(assert (= "+n+" "+term+"))")
	return n
}

func (vc *VC) assert(f string) {
	if f == "true" {
		return
	}
	vc.flushSortDecls()
	vc.lines = append(vc.lines, "(assert "+f+")")
}

func (vc *VC) assume(guard, f string) {
	vc.assert(Implies(guard, f))
}

func (vc *VC) note(format string, a ...interface{}) {
	s := fmt.Sprintf(format, a...)
	for _, n := range vc.Notes {
		if n == s {
			return
		}
	}
	vc.Notes = append(vc.Notes, s)
}

func (vc *VC) unsupported(format string, a ...interface{}) {
	vc.Unsupp = append(vc.Unsupp, fmt.Sprintf(format, a...))
}

func (vc *VC) strConst(s string) string {
	if n, ok := vc.strs[s]; ok {
		return n
	}
	n := fmt.Sprintf("str!%d", len(vc.strs))
	vc.strs[s] = n
	vc.declare(n, "Str")
	vc.assert(Eq(App("str.len_", n), fmt.Sprint(len(s))))
	if len(s) <= 64 {
		for i := 0; i < len(s); i++ {
			vc.assert(Eq(App("str.at_", n, fmt.Sprint(i)), fmt.Sprint(s[i])))
		}
	}
	// distinct constants are distinct strings
	for o, on := range vc.strs {
		if o != s {
			vc.assert(Not(Eq(n, on)))
		}
	}
	return n
}

// oblige records a proof obligation at the current point.
func (vc *VC) oblige(kind, anchor, guard, goal, pos, desc string) *Obligation {
	vc.flushSortDecls()
	base := fmt.Sprintf("%s%s#%s:%s", FuncName(vc.Fn), strings.ReplaceAll(vc.Variant, "#", "~"), kind, anchor)
	if vc.LemmaOf != "" {
		base = fmt.Sprintf("%s#%s:%s", vc.LemmaOf, kind, anchor)
	}
	vc.names[base]++
	name := base
	if vc.names[base] > 1 {
		name = fmt.Sprintf("%s@%d", base, vc.names[base])
	}
	o := &Obligation{Name: name, Kind: kind, Func: FuncName(vc.Fn), Guard: guard, Goal: goal, NLines: len(vc.lines), Pos: pos, Desc: desc, vc: vc}
	vc.Obls = append(vc.Obls, o)
	return o
}

// Query renders the SMT-LIB text of an obligation.
func (o *Obligation) Query() string {
	var b strings.Builder
	b.WriteString(Preamble)
	for _, l := range o.vc.lines[:o.NLines] {
		b.WriteString(l)
		b.WriteByte('\n')
	}
	b.WriteString("(assert " + o.Guard + ")\n")
	if o.ExpectSat {
		if o.Goal != "" && o.Goal != "true" {
			b.WriteString("(assert " + o.Goal + ")\n")
		}
	} else {
		b.WriteString("(assert (not " + o.Goal + "))\n")
	}
	b.WriteString("(check-sat)\n")
	if len(o.ModelTerms) > 0 {
		var ts []string
		for _, m := range o.ModelTerms {
			ts = append(ts, m.Term)
		}
		b.WriteString("(get-value (" + strings.Join(ts, " ") + "))\n")
	}
	return b.String()
}

func (vc *VC) posOf(p token.Pos) string {
	if !p.IsValid() {
		return ""
	}
	pp := vc.Eng.Prog.Fset.Position(p)
	return fmt.Sprintf("%s:%d", strings.TrimPrefix(pp.Filename, "/repo/"), pp.Line)
}

// anchorAt finds the source text of the innermost expression of the wanted
// kind at pos in fn's syntax; used to name obligations independent of lines.
func (vc *VC) anchorAt(fn *ssa.Function, pos token.Pos, want string) string {
	syn := fn.Syntax()
	for f := fn; syn == nil && f.Parent() != nil; f = f.Parent() {
		syn = f.Parent().Syntax()
	}
	if syn == nil || !pos.IsValid() {
		return want
	}
	var best ast.Node
	ast.Inspect(syn, func(n ast.Node) bool {
		if n == nil {
			return false
		}
		if pos < n.Pos() || pos >= n.End() {
			return false
		}
		ok := false
		switch x := n.(type) {
		case *ast.IndexExpr:
			ok = want == "index" && x.Lbrack == pos
		case *ast.SliceExpr:
			ok = want == "slice" && x.Lbrack == pos
		case *ast.SelectorExpr:
			ok = want == "field" && x.Sel.Pos() == pos
		case *ast.StarExpr:
			ok = want == "deref" && x.Star == pos
		case *ast.BinaryExpr:
			ok = want == "binop" && x.OpPos == pos
		case *ast.CallExpr:
			ok = want == "call" && x.Lparen == pos
		case *ast.TypeAssertExpr:
			ok = want == "assert" && x.Lparen == pos
		}
		if ok {
			best = n
		}
		return true
	})
	if best == nil {
		return want
	}
	s := types.ExprString(best.(ast.Expr))
	s = strings.Join(strings.Fields(s), "")
	if len(s) > 60 {
		s = s[:60]
	}
	return s
}

// ---- loops ----

type loopInfo struct {
	header  *ssa.BasicBlock
	blocks  map[*ssa.BasicBlock]bool
	minPos  token.Pos
	ordinal int
	spec    *LoopSpec
}

// findLoops computes natural loops (by dominating back edges) and numbers
// them in source order.
func findLoops(fn *ssa.Function) (map[*ssa.BasicBlock]*loopInfo, map[[2]int]bool) {
	loops := map[*ssa.BasicBlock]*loopInfo{}
	back := map[[2]int]bool{}
	for _, b := range fn.Blocks {
		for _, s := range b.Succs {
			if s.Dominates(b) {
				back[[2]int{b.Index, s.Index}] = true
				li := loops[s]
				if li == nil {
					li = &loopInfo{header: s, blocks: map[*ssa.BasicBlock]bool{s: true}}
					loops[s] = li
				}
				// natural loop: all blocks that reach b without passing s
				stack := []*ssa.BasicBlock{b}
				for len(stack) > 0 {
					x := stack[len(stack)-1]
					stack = stack[:len(stack)-1]
					if li.blocks[x] {
						continue
					}
					li.blocks[x] = true
					stack = append(stack, x.Preds...)
				}
			}
		}
	}
	var ls []*loopInfo
	for _, li := range loops {
		for b := range li.blocks {
			for _, in := range b.Instrs {
				p := in.Pos()
				if d, ok := in.(*ssa.DebugRef); ok {
					p = d.Expr.Pos()
				}
				if p.IsValid() && (!li.minPos.IsValid() || p < li.minPos) {
					li.minPos = p
				}
			}
		}
		ls = append(ls, li)
	}
	sort.Slice(ls, func(i, j int) bool {
		if ls[i].minPos != ls[j].minPos {
			return ls[i].minPos < ls[j].minPos
		}
		if len(ls[i].blocks) != len(ls[j].blocks) {
			return len(ls[i].blocks) > len(ls[j].blocks)
		}
		return ls[i].header.Index < ls[j].header.Index
	})
	for i, li := range ls {
		li.ordinal = i + 1
	}
	return loops, back
}

// rpo returns the blocks in reverse postorder ignoring back edges.
func rpo(fn *ssa.Function, back map[[2]int]bool) []*ssa.BasicBlock {
	seen := map[*ssa.BasicBlock]bool{}
	var post []*ssa.BasicBlock
	var dfs func(b *ssa.BasicBlock)
	dfs = func(b *ssa.BasicBlock) {
		seen[b] = true
		for _, s := range b.Succs {
			if back[[2]int{b.Index, s.Index}] || seen[s] {
				continue
			}
			dfs(s)
		}
		post = append(post, b)
	}
	if len(fn.Blocks) > 0 {
		dfs(fn.Blocks[0])
	}
	// the recover block, if any, is not reachable by normal edges; ignore it
	for i, j := 0, len(post)-1; i < j; i, j = i+1, j-1 {
		post[i], post[j] = post[j], post[i]
	}
	return post
}
