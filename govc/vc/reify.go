package vc

import (
	"fmt"
	"os"
	"go/types"
	"strconv"
	"strings"

	"golang.org/x/tools/go/ssa"
)

// Reification: from a solver model of the entry state to Go literals for the
// parameters of the function under verification.

const maxReifyDepth = 5 // pointer / slice hops followed from a parameter

const ReifyBound = 12 // slices/strings are bounded to this length when searching for a replayable model

type reifier struct {
	vc    *VC
	terms []ModelTerm
	seen  map[string]bool
	depth int
	queue []func()
}

func reifyDepth(r *reifier) int { return r.depth }

const maxReifyTerms = 2500

func (r *reifier) add(path, term string) {
	if r.seen[path] || len(r.terms) > maxReifyTerms {
		return
	}
	r.seen[path] = true
	r.terms = append(r.terms, ModelTerm{Name: path, Term: term})
}

// ReifyPlan returns the model terms to evaluate and extra bounding assertions.
// The object graph below the parameters is explored breadth first (each
// pointer, slice-element or dynamic-type hop is queued), so that a term budget
// cuts the deepest objects, not the later fields of shallow ones.
func (vc *VC) ReifyPlan() (terms []ModelTerm, bounds []string) {
	r := &reifier{vc: vc, seen: map[string]bool{}, depth: maxReifyDepth}
	for _, name := range vc.ParamOrder {
		v := vc.Params[name]
		r.value(v.T, v.Typ, name, 0, &bounds)
	}
	for len(r.queue) > 0 && len(r.terms) <= maxReifyTerms {
		next := r.queue[0]
		r.queue = r.queue[1:]
		next()
	}
	if os.Getenv("GOVC_DEBUG_REPLAY") != "" {
		fmt.Fprintf(os.Stderr, "reify plan: %d terms, %d bounds, %d objects not explored\n", len(r.terms), len(bounds), len(r.queue))
	}
	return r.terms, bounds
}

// hop defers the exploration of an object one hop away.
func (r *reifier) hop(loc string, t types.Type, path string, depth int, bounds *[]string) {
	r.queue = append(r.queue, func() { r.loc(loc, t, path, depth, bounds) })
}

func (r *reifier) value(term string, t types.Type, path string, depth int, bounds *[]string) {
	vc := r.vc
	if depth > reifyDepth(r) || len(r.terms) > maxReifyTerms {
		return
	}
	switch u := t.Underlying().(type) {
	case *types.Basic:
		switch {
		case u.Info()&types.IsInteger != 0, u.Info()&types.IsBoolean != 0:
			r.add(path, term)
			if rg := RangeOf(t, term); rg != "true" {
				*bounds = append(*bounds, rg)
			}
		case u.Info()&types.IsString != 0:
			r.add(path+".len", App("str.len_", term))
			*bounds = append(*bounds, App("<=", App("str.len_", term), fmt.Sprint(ReifyBound)))
			for i := 0; i < ReifyBound; i++ {
				r.add(fmt.Sprintf("%s.b%d", path, i), App("str.at_", term, fmt.Sprint(i)))
			}
		case u.Info()&types.IsFloat != 0:
			// not reified
		}
	case *types.Slice:
		r.add(path+".len", App("sl.len", term))
		r.add(path+".nil", Eq(App("sl.base", term), "Null"))
		r.add(path+".cap", App("sl.cap", term))
		*bounds = append(*bounds, App("<=", App("sl.len", term), fmt.Sprint(ReifyBound)), App("<=", App("sl.cap", term), "64"))
		n := ReifyBound
		if depth >= 1 {
			n = 3
		}
		for i := 0; i < n; i++ {
			r.hop(App("at_", term, fmt.Sprint(i)), u.Elem(), fmt.Sprintf("%s[%d]", path, i), depth+1, bounds)
		}
	case *types.Struct:
		sn := vc.sorts.SortOf(t)
		for i := 0; i < u.NumFields(); i++ {
			r.value(App(fmt.Sprintf("%s.f%d", sn, i), term), u.Field(i).Type(), path+"."+u.Field(i).Name(), depth, bounds)
		}
	case *types.Pointer:
		r.add(path+".nil", Eq(term, "Null"))
		if _, isStruct := u.Elem().Underlying().(*types.Struct); isStruct || isBasicScalar(u.Elem()) {
			r.hop(term, u.Elem(), "(*"+path+")", depth+1, bounds)
		}
	case *types.Interface:
		// dynamic type: nil or one of the pointer-to-struct types the VC knows
		// that implement the interface
		r.add(path+".tag", App("if.tag", term))
		alts := []string{Eq(App("if.tag", term), "0")}
		for _, id := range ifaceCandidates(vc.sorts, u) {
			pt := vc.sorts.tagTypes[id].Underlying().(*types.Pointer)
			alt := []string{Eq(App("if.tag", term), fmt.Sprint(id)), Not(Eq(App("if.ptr", term), "Null"))}
			// search heuristic: a dynamic value that merely wraps pointers (a
			// protobuf oneof wrapper) wraps non-nil ones, as every decoder builds it
			if st := pt.Elem().Underlying().(*types.Struct); st.NumFields() <= 2 {
				for i := 0; i < st.NumFields(); i++ {
					if _, isP := st.Field(i).Type().Underlying().(*types.Pointer); isP {
						if h, ok := vc.Entry.H["Loc"]; ok {
							alt = append(alt, Not(Eq(App("select", h, App("Fld", App("if.ptr", term), fmt.Sprint(vc.sorts.FieldID(pt.Elem(), i)))), "Null")))
						}
					}
				}
			}
			alts = append(alts, And(alt...))
			r.hop(App("if.ptr", term), pt.Elem(), fmt.Sprintf("%s.(T%d)", path, id), depth, bounds)
		}
		*bounds = append(*bounds, Or(alts...))
	}
}

// ifaceCandidates lists the registered type tags of pointer-to-struct types
// implementing iface, in increasing order.
func ifaceCandidates(s *Sorts, iface *types.Interface) []int {
	var ids []int
	for id := 1; id <= len(s.tagTypes); id++ {
		t := s.tagTypes[id]
		if t == nil {
			continue
		}
		p, ok := t.Underlying().(*types.Pointer)
		if !ok {
			continue
		}
		if _, isStruct := p.Elem().Underlying().(*types.Struct); !isStruct {
			continue
		}
		if types.Implements(t, iface) {
			ids = append(ids, id)
		}
	}
	return ids
}

func isBasicScalar(t types.Type) bool {
	b, ok := t.Underlying().(*types.Basic)
	return ok && b.Info()&(types.IsInteger|types.IsBoolean|types.IsString) != 0
}

func (r *reifier) loc(loc string, t types.Type, path string, depth int, bounds *[]string) {
	vc := r.vc
	if depth > reifyDepth(r) || len(r.terms) > maxReifyTerms {
		return
	}
	if st, ok := t.Underlying().(*types.Struct); ok {
		for i := 0; i < st.NumFields(); i++ {
			r.loc(App("Fld", loc, fmt.Sprint(vc.sorts.FieldID(t, i))), st.Field(i).Type(), path+"."+st.Field(i).Name(), depth, bounds)
		}
		return
	}
	if _, ok := t.Underlying().(*types.Array); ok {
		return
	}
	srt := vc.sorts.SortOf(t)
	h, ok := vc.Entry.H[srt]
	if !ok {
		return
	}
	r.value(App("select", h, loc), t, path, depth, bounds)
}

// ---- literals ----

type Model map[string]string

func (m Model) int(path string) (int64, bool) {
	v, ok := m[path]
	if !ok {
		return 0, false
	}
	v = strings.TrimSpace(v)
	neg := false
	if strings.HasPrefix(v, "(-") {
		neg = true
		v = strings.TrimSpace(strings.TrimSuffix(strings.TrimPrefix(v, "(-"), ")"))
	}
	n, err := strconv.ParseInt(v, 10, 64)
	if err != nil {
		// may exceed int64 (uint64 values)
		u, err2 := strconv.ParseUint(v, 10, 64)
		if err2 != nil {
			return 0, false
		}
		return int64(u), true
	}
	if neg {
		n = -n
	}
	return n, true
}

func (m Model) bool(path string) bool { return strings.TrimSpace(m[path]) == "true" }

// GoLiteral renders the value of type t described by the model under path.
// qual qualifies type names relative to the package under test.
func GoLiteral(m Model, t types.Type, path string, qual types.Qualifier, depth int) string {
	return goLiteral(nil, m, t, path, qual, depth)
}

// GoLiteral with access to the VC's type tags (interface-typed values).
func (vc *VC) GoLiteral(m Model, t types.Type, path string, qual types.Qualifier, depth int) string {
	return goLiteral(vc.sorts, m, t, path, qual, depth)
}

func goLiteral(srt *Sorts, m Model, t types.Type, path string, qual types.Qualifier, depth int) string {
	ts := types.TypeString(t, qual)
	switch u := t.Underlying().(type) {
	case *types.Basic:
		switch {
		case u.Info()&types.IsBoolean != 0:
			return fmt.Sprintf("%s(%v)", ts, m.bool(path))
		case u.Info()&types.IsInteger != 0:
			n, _ := m.int(path)
			if u.Info()&types.IsUnsigned != 0 {
				return fmt.Sprintf("%s(%d)", ts, uint64(n))
			}
			return fmt.Sprintf("%s(%d)", ts, n)
		case u.Info()&types.IsString != 0:
			n, _ := m.int(path + ".len")
			if n > ReifyBound {
				n = ReifyBound
			}
			var bs []byte
			for i := int64(0); i < n; i++ {
				c, _ := m.int(fmt.Sprintf("%s.b%d", path, i))
				bs = append(bs, byte(c))
			}
			return fmt.Sprintf("%s(%q)", ts, string(bs))
		}
		return fmt.Sprintf("*new(%s)", ts)
	case *types.Slice:
		if m.bool(path+".nil") || depth > maxReifyDepth+1 {
			return fmt.Sprintf("%s(nil)", ts)
		}
		n, _ := m.int(path + ".len")
		lim := int64(ReifyBound)
		if depth >= 1 {
			lim = 3
		}
		if n > lim {
			n = lim
		}
		var es []string
		for i := int64(0); i < n; i++ {
			es = append(es, goLiteral(srt, m, u.Elem(), fmt.Sprintf("%s[%d]", path, i), qual, depth+1))
		}
		if c, ok := m.int(path + ".cap"); ok && c > n && c <= 64 {
			// honour a capacity larger than the length (code may reslice up to cap)
			return fmt.Sprintf("append(make(%s, 0, %d), %s{%s}...)", ts, c, ts, strings.Join(es, ", "))
		}
		return fmt.Sprintf("%s{%s}", ts, strings.Join(es, ", "))
	case *types.Struct:
		var fs []string
		for i := 0; i < u.NumFields(); i++ {
			f := u.Field(i)
			if !hasModelUnder(m, path+"."+f.Name()) {
				continue
			}
			if !f.Exported() && f.Pkg() != nil && qual != nil && qual(f.Pkg()) != "" {
				continue // unexported field of another package's struct
			}
			fs = append(fs, fmt.Sprintf("%s: %s", f.Name(), goLiteral(srt, m, f.Type(), path+"."+f.Name(), qual, depth)))
		}
		return fmt.Sprintf("%s{%s}", ts, strings.Join(fs, ", "))
	case *types.Interface:
		tag, ok := m.int(path + ".tag")
		if !ok || tag == 0 || srt == nil || depth > maxReifyDepth+1 {
			return "nil"
		}
		dt := srt.tagTypes[int(tag)]
		if dt == nil {
			return "nil"
		}
		pt, isPtr := dt.Underlying().(*types.Pointer)
		if !isPtr {
			return "nil"
		}
		return "&" + goLiteral(srt, m, pt.Elem(), fmt.Sprintf("%s.(T%d)", path, tag), qual, depth)
	case *types.Pointer:
		if _, known := m[path+".nil"]; !known || m.bool(path+".nil") || depth > maxReifyDepth+1 {
			return fmt.Sprintf("(%s)(nil)", ts)
		}
		inner := goLiteral(srt, m, u.Elem(), "(*"+path+")", qual, depth+1)
		if _, isStruct := u.Elem().Underlying().(*types.Struct); isStruct {
			return "&" + inner
		}
		return fmt.Sprintf("func() %s { v := %s; return &v }()", ts, inner)
	}
	return fmt.Sprintf("*new(%s)", ts)
}

func hasModelUnder(m Model, prefix string) bool {
	for k := range m {
		if strings.HasPrefix(k, prefix) {
			return true
		}
	}
	return false
}

// ReplayTarget describes how to call the function under verification.
type ReplayTarget struct {
	PkgPath  string
	PkgName  string
	Dir      string
	CallExpr string // e.g. "fromSizedDeltas(%s)" with args joined
	NResults int
	OK       bool
	Why      string
}

func (vc *VC) ReplayTarget() ReplayTarget {
	fn := vc.Fn
	rt := ReplayTarget{}
	if fn.Parent() != nil || fn.Pkg == nil || fn.TypeParams().Len() > 0 || len(fn.TypeArgs()) > 0 || fn.Synthetic != "" {
		rt.Why = "closures, generic instances and synthetic functions are not replayed"
		return rt
	}
	rt.PkgPath = fn.Pkg.Pkg.Path()
	rt.PkgName = fn.Pkg.Pkg.Name()
	pos := vc.Eng.Prog.Fset.Position(fn.Pos())
	if i := strings.LastIndex(pos.Filename, "/"); i >= 0 {
		rt.Dir = pos.Filename[:i]
	}
	rt.NResults = fn.Signature.Results().Len()
	if fn.Signature.Recv() != nil {
		rt.CallExpr = "(%s)." + fn.Name() + "(%s)"
	} else {
		rt.CallExpr = fn.Name() + "(%s)"
	}
	rt.OK = true
	return rt
}

// Params returns the parameters of fn in order with their types.
func (vc *VC) ParamList() []*ssa.Parameter { return vc.Fn.Params }

func (o *Obligation) VC() *VC { return o.vc }
