package vc

import (
	"fmt"
	"go/types"
	"strconv"
	"strings"

	"golang.org/x/tools/go/ssa"
)

// Reification: from a solver model of the entry state to Go literals for the
// parameters of the function under verification.

const ReifyBound = 12 // slices/strings are bounded to this length when searching for a replayable model

type reifier struct {
	vc    *VC
	terms []ModelTerm
	seen  map[string]bool
}

func (r *reifier) add(path, term string) {
	if r.seen[path] {
		return
	}
	r.seen[path] = true
	r.terms = append(r.terms, ModelTerm{Name: path, Term: term})
}

// ReifyPlan returns the model terms to evaluate and extra bounding assertions.
func (vc *VC) ReifyPlan() (terms []ModelTerm, bounds []string) {
	r := &reifier{vc: vc, seen: map[string]bool{}}
	for _, name := range vc.ParamOrder {
		v := vc.Params[name]
		r.value(v.T, v.Typ, name, 0, &bounds)
	}
	return r.terms, bounds
}

func (r *reifier) value(term string, t types.Type, path string, depth int, bounds *[]string) {
	vc := r.vc
	if depth > 3 {
		return
	}
	switch u := t.Underlying().(type) {
	case *types.Basic:
		switch {
		case u.Info()&types.IsInteger != 0, u.Info()&types.IsBoolean != 0:
			r.add(path, term)
			if rg := RangeOf(t, term); rg != "true" {
				*bounds = append(*bounds, rg)
			}
		case u.Info()&types.IsString != 0:
			r.add(path+".len", App("str.len_", term))
			*bounds = append(*bounds, App("<=", App("str.len_", term), fmt.Sprint(ReifyBound)))
			for i := 0; i < ReifyBound; i++ {
				r.add(fmt.Sprintf("%s.b%d", path, i), App("str.at_", term, fmt.Sprint(i)))
			}
		case u.Info()&types.IsFloat != 0:
			// not reified
		}
	case *types.Slice:
		r.add(path+".len", App("sl.len", term))
		r.add(path+".nil", Eq(App("sl.base", term), "Null"))
		r.add(path+".cap", App("sl.cap", term))
		*bounds = append(*bounds, App("<=", App("sl.len", term), fmt.Sprint(ReifyBound)), App("<=", App("sl.cap", term), "64"))
		n := ReifyBound
		if depth >= 1 {
			n = 3
		}
		for i := 0; i < n; i++ {
			r.loc(App("at_", term, fmt.Sprint(i)), u.Elem(), fmt.Sprintf("%s[%d]", path, i), depth+1, bounds)
		}
	case *types.Struct:
		sn := vc.sorts.SortOf(t)
		for i := 0; i < u.NumFields(); i++ {
			r.value(App(fmt.Sprintf("%s.f%d", sn, i), term), u.Field(i).Type(), path+"."+u.Field(i).Name(), depth, bounds)
		}
	case *types.Pointer:
		r.add(path+".nil", Eq(term, "Null"))
		if _, isStruct := u.Elem().Underlying().(*types.Struct); isStruct || isBasicScalar(u.Elem()) {
			r.loc(term, u.Elem(), "(*"+path+")", depth+1, bounds)
		}
	}
}

func isBasicScalar(t types.Type) bool {
	b, ok := t.Underlying().(*types.Basic)
	return ok && b.Info()&(types.IsInteger|types.IsBoolean|types.IsString) != 0
}

func (r *reifier) loc(loc string, t types.Type, path string, depth int, bounds *[]string) {
	vc := r.vc
	if depth > 3 {
		return
	}
	if st, ok := t.Underlying().(*types.Struct); ok {
		for i := 0; i < st.NumFields(); i++ {
			r.loc(App("Fld", loc, fmt.Sprint(vc.sorts.FieldID(t, i))), st.Field(i).Type(), path+"."+st.Field(i).Name(), depth, bounds)
		}
		return
	}
	if _, ok := t.Underlying().(*types.Array); ok {
		return
	}
	srt := vc.sorts.SortOf(t)
	h, ok := vc.Entry.H[srt]
	if !ok {
		return
	}
	r.value(App("select", h, loc), t, path, depth, bounds)
}

// ---- literals ----

type Model map[string]string

func (m Model) int(path string) (int64, bool) {
	v, ok := m[path]
	if !ok {
		return 0, false
	}
	v = strings.TrimSpace(v)
	neg := false
	if strings.HasPrefix(v, "(-") {
		neg = true
		v = strings.TrimSpace(strings.TrimSuffix(strings.TrimPrefix(v, "(-"), ")"))
	}
	n, err := strconv.ParseInt(v, 10, 64)
	if err != nil {
		// may exceed int64 (uint64 values)
		u, err2 := strconv.ParseUint(v, 10, 64)
		if err2 != nil {
			return 0, false
		}
		return int64(u), true
	}
	if neg {
		n = -n
	}
	return n, true
}

func (m Model) bool(path string) bool { return strings.TrimSpace(m[path]) == "true" }

// GoLiteral renders the value of type t described by the model under path.
// qual qualifies type names relative to the package under test.
func GoLiteral(m Model, t types.Type, path string, qual types.Qualifier, depth int) string {
	ts := types.TypeString(t, qual)
	switch u := t.Underlying().(type) {
	case *types.Basic:
		switch {
		case u.Info()&types.IsBoolean != 0:
			return fmt.Sprintf("%s(%v)", ts, m.bool(path))
		case u.Info()&types.IsInteger != 0:
			n, _ := m.int(path)
			if u.Info()&types.IsUnsigned != 0 {
				return fmt.Sprintf("%s(%d)", ts, uint64(n))
			}
			return fmt.Sprintf("%s(%d)", ts, n)
		case u.Info()&types.IsString != 0:
			n, _ := m.int(path + ".len")
			if n > ReifyBound {
				n = ReifyBound
			}
			var bs []byte
			for i := int64(0); i < n; i++ {
				c, _ := m.int(fmt.Sprintf("%s.b%d", path, i))
				bs = append(bs, byte(c))
			}
			return fmt.Sprintf("%s(%q)", ts, string(bs))
		}
		return fmt.Sprintf("*new(%s)", ts)
	case *types.Slice:
		if m.bool(path+".nil") || depth > 3 {
			return fmt.Sprintf("%s(nil)", ts)
		}
		n, _ := m.int(path + ".len")
		lim := int64(ReifyBound)
		if depth >= 1 {
			lim = 3
		}
		if n > lim {
			n = lim
		}
		var es []string
		for i := int64(0); i < n; i++ {
			es = append(es, GoLiteral(m, u.Elem(), fmt.Sprintf("%s[%d]", path, i), qual, depth+1))
		}
		if c, ok := m.int(path + ".cap"); ok && c > n && c <= 64 {
			// honour a capacity larger than the length (code may reslice up to cap)
			return fmt.Sprintf("append(make(%s, 0, %d), %s{%s}...)", ts, c, ts, strings.Join(es, ", "))
		}
		return fmt.Sprintf("%s{%s}", ts, strings.Join(es, ", "))
	case *types.Struct:
		var fs []string
		for i := 0; i < u.NumFields(); i++ {
			f := u.Field(i)
			if !hasModelUnder(m, path+"."+f.Name()) {
				continue
			}
			fs = append(fs, fmt.Sprintf("%s: %s", f.Name(), GoLiteral(m, f.Type(), path+"."+f.Name(), qual, depth)))
		}
		return fmt.Sprintf("%s{%s}", ts, strings.Join(fs, ", "))
	case *types.Pointer:
		if m.bool(path+".nil") || depth > 3 {
			return fmt.Sprintf("(%s)(nil)", ts)
		}
		inner := GoLiteral(m, u.Elem(), "(*"+path+")", qual, depth+1)
		if _, isStruct := u.Elem().Underlying().(*types.Struct); isStruct {
			return "&" + inner
		}
		return fmt.Sprintf("func() %s { v := %s; return &v }()", ts, inner)
	}
	return fmt.Sprintf("*new(%s)", ts)
}

func hasModelUnder(m Model, prefix string) bool {
	for k := range m {
		if strings.HasPrefix(k, prefix) {
			return true
		}
	}
	return false
}

// ReplayTarget describes how to call the function under verification.
type ReplayTarget struct {
	PkgPath  string
	PkgName  string
	Dir      string
	CallExpr string // e.g. "fromSizedDeltas(%s)" with args joined
	NResults int
	OK       bool
	Why      string
}

func (vc *VC) ReplayTarget() ReplayTarget {
	fn := vc.Fn
	rt := ReplayTarget{}
	if fn.Parent() != nil || fn.Pkg == nil || fn.TypeParams().Len() > 0 || len(fn.TypeArgs()) > 0 || fn.Synthetic != "" {
		rt.Why = "closures, generic instances and synthetic functions are not replayed"
		return rt
	}
	rt.PkgPath = fn.Pkg.Pkg.Path()
	rt.PkgName = fn.Pkg.Pkg.Name()
	pos := vc.Eng.Prog.Fset.Position(fn.Pos())
	if i := strings.LastIndex(pos.Filename, "/"); i >= 0 {
		rt.Dir = pos.Filename[:i]
	}
	rt.NResults = fn.Signature.Results().Len()
	if fn.Signature.Recv() != nil {
		rt.CallExpr = "(%s)." + fn.Name() + "(%s)"
	} else {
		rt.CallExpr = fn.Name() + "(%s)"
	}
	rt.OK = true
	return rt
}

// Params returns the parameters of fn in order with their types.
func (vc *VC) ParamList() []*ssa.Parameter { return vc.Fn.Params }

func (o *Obligation) VC() *VC { return o.vc }
