package vc

import (
	"fmt"
	"go/types"
	"sort"
	"strings"
)

// bulkHeaps introduces ONE fresh heap per scalar sort occurring in the
// flattened element type et, framed against pre: a cell keeps its value unless
// it matches mod(leaf) for some leaf of that sort, or was allocated after pre.
// st is updated to the new heaps; the map sort->new heap is returned so that
// callers can state the new contents.
func (f *frame) bulkHeaps(st, pre *State, et types.Type, tag string, mod func(lf leaf) string) map[string]string {
	vc := f.vc
	bySort := map[string][]leaf{}
	for _, lf := range vc.leaves(et) {
		if hasElemStep(lf.steps) {
			continue
		}
		bySort[lf.sort] = append(bySort[lf.sort], lf)
	}
	var sorts []string
	for s := range bySort {
		sorts = append(sorts, s)
	}
	sort.Strings(sorts)
	out := map[string]string{}
	for _, srt := range sorts {
		h := vc.fresh(f.prefix+"H"+srt+"_"+tag, vc.heapSort(srt))
		var ms []string
		for _, lf := range bySort[srt] {
			ms = append(ms, mod(lf))
		}
		ms = append(ms, App(">", App("rt", "l!"), pre.Top))
		vc.assert(fmt.Sprintf("(forall ((l! Loc)) (! (=> (not (or %s)) (= (select %s l!) (select %s l!))) :pattern ((select %s l!))))", strings.Join(ms, " "), h, pre.H[srt], h))
		st.H[srt] = h
		out[srt] = h
		if srt == "Loc" || srt == "Slice" || srt == "Iface" {
			vc.assertHeapWF(&State{H: map[string]string{srt: h}, Top: st.Top}, []modPat{{sort: srt}})
		}
	}
	return out
}
