package vc

import (
	"fmt"
	"strings"
)

// A tiny S-expression reader/printer used to relax queries for model finding.

type Sx struct {
	Atom string
	List []*Sx
	IsL  bool
}

func ParseSx(s string) ([]*Sx, error) {
	var out []*Sx
	i := 0
	for {
		i = skipWs(s, i)
		if i >= len(s) {
			return out, nil
		}
		x, j, err := parseSxAt(s, i)
		if err != nil {
			return nil, err
		}
		out = append(out, x)
		i = j
	}
}

func skipWs(s string, i int) int {
	for i < len(s) {
		c := s[i]
		if c == ' ' || c == '\n' || c == '\t' || c == '\r' {
			i++
		} else if c == ';' {
			for i < len(s) && s[i] != '\n' {
				i++
			}
		} else {
			break
		}
	}
	return i
}

func parseSxAt(s string, i int) (*Sx, int, error) {
	if s[i] == '(' {
		x := &Sx{IsL: true}
		i++
		for {
			i = skipWs(s, i)
			if i >= len(s) {
				return nil, i, fmt.Errorf("unbalanced")
			}
			if s[i] == ')' {
				return x, i + 1, nil
			}
			c, j, err := parseSxAt(s, i)
			if err != nil {
				return nil, j, err
			}
			x.List = append(x.List, c)
			i = j
		}
	}
	if s[i] == '|' {
		j := strings.IndexByte(s[i+1:], '|')
		if j < 0 {
			return nil, i, fmt.Errorf("unterminated |")
		}
		return &Sx{Atom: s[i : i+j+2]}, i + j + 2, nil
	}
	if s[i] == '"' {
		j := i + 1
		for j < len(s) && s[j] != '"' {
			j++
		}
		return &Sx{Atom: s[i : j+1]}, j + 1, nil
	}
	j := i
	for j < len(s) && !strings.ContainsRune(" \n\t\r()", rune(s[j])) {
		j++
	}
	return &Sx{Atom: s[i:j]}, j, nil
}

func (x *Sx) String() string {
	if !x.IsL {
		return x.Atom
	}
	var b strings.Builder
	x.write(&b)
	return b.String()
}

func (x *Sx) write(b *strings.Builder) {
	if !x.IsL {
		b.WriteString(x.Atom)
		return
	}
	b.WriteByte('(')
	for i, c := range x.List {
		if i > 0 {
			b.WriteByte(' ')
		}
		c.write(b)
	}
	b.WriteByte(')')
}

func (x *Sx) head() string {
	if x.IsL && len(x.List) > 0 && !x.List[0].IsL {
		return x.List[0].Atom
	}
	return ""
}

func subst(x *Sx, env map[string]string) *Sx {
	if !x.IsL {
		if v, ok := env[x.Atom]; ok {
			return &Sx{Atom: v}
		}
		return x
	}
	h := x.head()
	if (h == "forall" || h == "exists") && len(x.List) == 3 {
		// respect shadowing
		inner := env
		for _, d := range x.List[1].List {
			if len(d.List) == 2 {
				if _, ok := env[d.List[0].Atom]; ok {
					if len(inner) == len(env) {
						inner = map[string]string{}
						for k, v := range env {
							inner[k] = v
						}
					}
					delete(inner, d.List[0].Atom)
				}
			}
		}
		return &Sx{IsL: true, List: []*Sx{x.List[0], x.List[1], subst(x.List[2], inner)}}
	}
	n := &Sx{IsL: true, List: make([]*Sx, len(x.List))}
	for i, c := range x.List {
		n.List[i] = subst(c, env)
	}
	return n
}

func intLitSx(n int) string {
	if n < 0 {
		return fmt.Sprintf("(- %d)", -n)
	}
	return fmt.Sprint(n)
}

// relax rewrites a formula: quantifiers over Int variables are expanded over
// [-1, bound]; patterns are stripped; other quantifiers are dropped when that
// weakens the formula (pos: polarity of the occurrence).
func relax(x *Sx, pos bool, bound int) *Sx {
	if !x.IsL {
		return x
	}
	h := x.head()
	switch h {
	case "!":
		if len(x.List) >= 2 {
			return relax(x.List[1], pos, bound)
		}
	case "not":
		if len(x.List) == 2 {
			return &Sx{IsL: true, List: []*Sx{x.List[0], relax(x.List[1], !pos, bound)}}
		}
	case "=>":
		n := &Sx{IsL: true, List: []*Sx{x.List[0]}}
		for i, c := range x.List[1:] {
			if i < len(x.List)-2 {
				n.List = append(n.List, relax(c, !pos, bound))
			} else {
				n.List = append(n.List, relax(c, pos, bound))
			}
		}
		return n
	case "forall", "exists":
		if len(x.List) != 3 {
			break
		}
		allInt := true
		var names []string
		for _, d := range x.List[1].List {
			if len(d.List) != 2 || d.List[1].IsL || d.List[1].Atom != "Int" {
				allInt = false
			} else {
				names = append(names, d.List[0].Atom)
			}
		}
		if allInt && len(names) <= 3 {
			op := "and"
			if h == "exists" {
				op = "or"
			}
			res := &Sx{IsL: true, List: []*Sx{{Atom: op}}}
			var rec func(i int, env map[string]string)
			rec = func(i int, env map[string]string) {
				if i == len(names) {
					e2 := map[string]string{}
					for k, v := range env {
						e2[k] = v
					}
					res.List = append(res.List, relax(subst(x.List[2], e2), pos, bound))
					return
				}
				for v := -1; v <= bound; v++ {
					env[names[i]] = intLitSx(v)
					rec(i+1, env)
				}
			}
			rec(0, map[string]string{})
			return res
		}
		// not expandable: drop when dropping weakens the assumption set
		if h == "forall" && pos {
			return &Sx{Atom: "true"}
		}
		if h == "exists" && !pos {
			return &Sx{Atom: "false"}
		}
		return x
	case "=":
		// equality between formulas may hide quantifiers of either polarity: leave untouched
		return x
	case "ite":
		if len(x.List) == 4 {
			return &Sx{IsL: true, List: []*Sx{x.List[0], x.List[1], relax(x.List[2], pos, bound), relax(x.List[3], pos, bound)}}
		}
	case "and", "or":
		n := &Sx{IsL: true, List: []*Sx{x.List[0]}}
		for _, c := range x.List[1:] {
			n.List = append(n.List, relax(c, pos, bound))
		}
		return n
	}
	return x
}

// RelaxQuery turns a query into a (mostly) quantifier-free one suitable for
// model finding: at_ becomes a macro, engine axioms over locations are
// dropped, Int quantifiers are expanded over [-1,bound]. extra assertions and
// a get-value for the given terms are appended.
func RelaxQuery(q string, bound int, extra []string, getValues []string) (string, error) {
	forms, err := ParseSx(q)
	if err != nil {
		return "", err
	}
	var b strings.Builder
	for _, f := range forms {
		h := f.head()
		s := f.String()
		switch {
		case h == "declare-fun" && len(f.List) > 1 && f.List[1].Atom == "at_":
			b.WriteString("(define-fun at_ ((s Slice) (i Int)) Loc (Elem (sl.base s) (+ (sl.off s) i)))\n")
			continue
		case h == "assert" && strings.Contains(s, "(at_ s i)") && strings.Contains(s, "forall ((s Slice) (i Int))"):
			continue
		case h == "check-sat" || h == "get-value" || h == "get-model":
			continue
		case h == "assert" && len(f.List) == 2:
			r := relax(f.List[1], true, bound)
			if !r.IsL && r.Atom == "true" {
				continue
			}
			b.WriteString("(assert " + r.String() + ")\n")
			continue
		}
		b.WriteString(s + "\n")
	}
	for _, e := range extra {
		b.WriteString("(assert " + e + ")\n")
	}
	b.WriteString("(check-sat)\n")
	if len(getValues) > 0 {
		b.WriteString("(get-value (" + strings.Join(getValues, " ") + "))\n")
	}
	return b.String(), nil
}
