package vc

import (
	"fmt"
	"go/types"

	"golang.org/x/tools/go/ssa"
)

func init() {
	stdSpecs["slices.Clone"] = specSlicesClone
	StdSpecDoc["slices.Clone"] = "slices.Clone(s): nil for nil; otherwise a fresh slice with len(s) elements equal to s's"
	pureExternalPrefixes = append(pureExternalPrefixes,
		"github.com/RoaringBitmap/roaring/v2.", "(*github.com/RoaringBitmap/roaring/v2.Bitmap).",
		"(*bytes.Buffer).", "bytes.NewReader", "bytes.NewBuffer", "(*bytes.Reader).",
		"encoding/binary.PutUvarint", "encoding/binary.AppendUvarint",
		"(*strings.Builder).", "os.Getenv", "os.Stat", "os.Lstat", "reflect.DeepEqual",
		"(*regexp.Regexp).", "regexp.MustCompile", "regexp.Compile", "regexp.QuoteMeta",
		"(*github.com/grafana/regexp.Regexp).", "github.com/grafana/regexp.",
		"google.golang.org/protobuf/proto.Size", "google.golang.org/protobuf/types/known",
		"(*google.golang.org/protobuf/types/known",
		"runtime.", "sync.", "(*sync.", "hash/", "(*hash/", "crypto/", "(*crypto/",
		"(error).Error", "google.golang.org/grpc/status.", "google.golang.org/grpc/codes.",
		"(github.com/sourcegraph/zoekt/grpc/protos/zoekt/webserver/v1.WebserverService_StreamSearchServer).Context",
		"(google.golang.org/grpc.ServerStream).Context",
	)
}

func specSlicesClone(f *frame, callee *ssa.Function, args []Val, in string, st *State, site ssa.Instruction) (Val, bool) {
	vc := f.vc
	vc.useStd(callee)
	s := args[0]
	et := s.Typ.Underlying().(*types.Slice).Elem()
	fresh := f.alloc(callName(site), in, st)
	n := App("sl.len", s.T)
	capv := vc.fresh(f.prefix+callName(site)+"_cap", "Int")
	vc.assert(App(">=", capv, n))
	r := vc.defineConst(f.prefix+callName(site), "Slice", Ite(Eq(App("sl.base", s.T), "Null"), "nil-slice", App("mk-slice", fresh, "0", n, capv)))
	for _, lf := range vc.leaves(et) {
		if hasElemStep(lf.steps) {
			continue
		}
		h := st.H[lf.sort]
		vc.assume(in, fmt.Sprintf("(forall ((i! Int)) (! (=> (and (<= 0 i!) (< i! %s)) (= (select %s %s) (select %s %s))) :pattern ((at_ %s i!))))", n, h, applySteps(App("at_", r, "i!"), lf.steps), h, applySteps(App("at_", s.T, "i!"), lf.steps), r))
	}
	return Val{T: r, Typ: s.Typ}, true
}

// declRuneCount declares the abstract rune counter shared by the stdspec of
// utf8.RuneCount and the spec builtin runecount(x). It is a function of the
// slice's CONTENT (content_ h s : index -> byte) and length only, so writes to
// other memory do not disturb it.
func (vc *VC) declRuneCount() {
	if vc.absFns["runeCountC_"] {
		return
	}
	vc.absFns["runeCountC_"] = true
	vc.lines = append(vc.lines, "(declare-fun runeCountC_ ((Array Int Int) Int) Int)",
		"(assert (forall ((c (Array Int Int)) (n Int)) (! (=> (>= n 0) (and (<= 0 (runeCountC_ c n)) (<= (runeCountC_ c n) n))) :pattern ((runeCountC_ c n)))))")
}

// runeCountTerm is utf8.RuneCount of slice s in byte heap h.
func (vc *VC) runeCountTerm(h, s string) string {
	vc.declRuneCount()
	return App("runeCountC_", App("content_", h, s), App("sl.len", s))
}
