package vc

import (
	"fmt"
	"go/types"

	"golang.org/x/tools/go/ssa"
)

// funcCandidates returns the functions an SSA value may denote when it is a
// phi (or chain of phis) over function constants; nil if unknown.
func funcCandidates(v ssa.Value, seen map[ssa.Value]bool) []*ssa.Function {
	if seen[v] {
		return nil
	}
	seen[v] = true
	switch x := v.(type) {
	case *ssa.Function:
		return []*ssa.Function{x}
	case *ssa.Phi:
		var out []*ssa.Function
		for _, e := range x.Edges {
			if seen[e] {
				continue
			}
			c := funcCandidates(e, seen)
			if c == nil {
				return nil
			}
			out = append(out, c...)
		}
		return out
	case *ssa.ChangeType:
		return funcCandidates(x.X, seen)
	}
	return nil
}

// mergeInto joins alternative states (under pairwise disjoint guards) into st.
func (f *frame) mergeInto(st *State, guards []string, states []*State) {
	vc := f.vc
	for _, srt := range vc.allHeaps() {
		same := true
		for _, s := range states[1:] {
			if vc.heapOf(s, srt) != vc.heapOf(states[0], srt) {
				same = false
			}
		}
		if same {
			st.H[srt] = vc.heapOf(states[0], srt)
			continue
		}
		h := vc.fresh(f.prefix+"H"+srt+"_mrg", vc.heapSort(srt))
		for i, s := range states {
			vc.assume(guards[i], Eq(h, vc.heapOf(s, srt)))
		}
		st.H[srt] = h
	}
	sameTop := true
	for _, s := range states[1:] {
		if s.Top != states[0].Top {
			sameTop = false
		}
	}
	if sameTop {
		st.Top = states[0].Top
		return
	}
	tp := vc.fresh(f.prefix+"top_mrg", "Int")
	for i, s := range states {
		vc.assume(guards[i], Eq(tp, s.Top))
	}
	st.Top = tp
}

// mergeVals joins alternative results.
func (f *frame) mergeVals(hint string, t types.Type, guards []string, vals []Val) Val {
	vc := f.vc
	if t == nil {
		return Val{}
	}
	if tup, ok := t.(*types.Tuple); ok {
		if tup.Len() == 0 {
			return Val{Typ: t}
		}
		out := Val{Typ: t}
		for i := 0; i < tup.Len(); i++ {
			var comps []Val
			for _, v := range vals {
				comps = append(comps, v.Tuple[i])
			}
			out.Tuple = append(out.Tuple, f.mergeVals(fmt.Sprintf("%s_%d", hint, i), tup.At(i).Type(), guards, comps))
		}
		return out
	}
	n := vc.fresh(f.prefix+hint+"_mrg", vc.sorts.SortOf(t))
	for i, v := range vals {
		vc.assume(guards[i], Eq(n, v.T))
	}
	return Val{T: n, Typ: t}
}

// inDeclLoop reports whether block b lies in a loop with a declared frame.
func (f *frame) inDeclLoop(b *ssa.BasicBlock) bool {
	for li := range f.declFrames {
		if li.blocks[b] {
			return true
		}
	}
	return false
}

// writesMemory: does fn (syntactically) store to anything but its own
// non-escaping locals, or call something that might?
func writesMemory(fn *ssa.Function) bool {
	for _, b := range fn.Blocks {
		for _, ins := range b.Instrs {
			switch x := ins.(type) {
			case *ssa.Store:
				if a, ok := x.Addr.(*ssa.Alloc); ok && !escapes(a) {
					continue
				}
				return true
			case *ssa.MapUpdate, *ssa.Go, *ssa.Defer, *ssa.Send:
				return true
			case *ssa.Call:
				if _, isB := x.Call.Value.(*ssa.Builtin); isB {
					n := x.Call.Value.Name()
					if n == "append" || n == "copy" || n == "delete" || n == "clear" {
						return true
					}
					continue
				}
				return true
			}
		}
	}
	return false
}

// sortedDeclLoops returns the loops with declared frames in ordinal order.
func (f *frame) sortedDeclLoops() []*loopInfo {
	var ls []*loopInfo
	for li := range f.declFrames {
		ls = append(ls, li)
	}
	for i := 1; i < len(ls); i++ {
		for j := i; j > 0 && ls[j].ordinal < ls[j-1].ordinal; j-- {
			ls[j], ls[j-1] = ls[j-1], ls[j]
		}
	}
	return ls
}

// isRangePhi: $i names the index phi of a range-over-slice loop (value before
// the increment: -1 at entry), $n the iteration counter of a range-over-int
// loop (0 at entry; the header is the loop body block).
func isRangePhi(name string, phi *ssa.Phi) bool {
	return (name == "$i" && phi.Comment == "rangeindex") || (name == "$n" && phi.Comment == "rangeint.iter")
}

// inRepo: is fn defined in the repository under verification?
func inRepo(fn *ssa.Function) bool {
	for fn.Parent() != nil {
		fn = fn.Parent()
	}
	p := fn.Pkg
	if p == nil && fn.Origin() != nil {
		p = fn.Origin().Pkg
	}
	if p == nil {
		return false
	}
	path := p.Pkg.Path()
	return path == "github.com/sourcegraph/zoekt" || len(path) > 29 && path[:29] == "github.com/sourcegraph/zoekt/" || path == "unit" || len(path) > 5 && path[:5] == "unit/"
}
