package vc

import (
	"fmt"
	"go/types"

	"golang.org/x/tools/go/ssa"
)

// stdHandler models a call to a library function. It returns handled=false to
// fall through to the generic treatment.
type stdHandler func(f *frame, callee *ssa.Function, args []Val, in string, st *State, site ssa.Instruction) (Val, bool)

// stdSpecs are the hand-written contracts of library functions (the trusted
// base; each entry is listed in the evidence when used).
var stdSpecs = map[string]stdHandler{}

// StdSpecDoc describes each entry for the evidence file.
var StdSpecDoc = map[string]string{}

func init() {
	stdSpecs["sort.Search"] = specSortSearch
	StdSpecDoc["sort.Search"] = "sort.Search(n,f): 0<=r<=n, (r<n => f(r)), (r>0 => !f(r-1)); f evaluated by inlining the closure (must be pure)"
	stdSpecs["bytes.IndexByte"] = specBytesIndexByte
	StdSpecDoc["bytes.IndexByte"] = "bytes.IndexByte(b,c): r==-1 and no byte equals c, or 0<=r<len(b), b[r]==c and no earlier byte equals c"
	stdSpecs["bytes.Index"] = specBytesIndex
	StdSpecDoc["bytes.Index"] = "bytes.Index(s,sep): r==-1, or 0<=r && r+len(sep)<=len(s) && s[r+j]==sep[j] for all j<len(sep)"
	stdSpecs["unicode/utf8.RuneCount"] = specRuneCount
	StdSpecDoc["unicode/utf8.RuneCount"] = "utf8.RuneCount(b): abstract function runeCount(heap,b) with 0<=r<=len(b)"
	stdSpecs["encoding/binary.Uvarint"] = specUvarint
	StdSpecDoc["encoding/binary.Uvarint"] = "binary.Uvarint(buf): the returned length n is defined exactly from the bytes (first byte < 0x80 among the first ten: n = index+1, or -10 for an overflowing tenth byte; none: -11 if len > 10, else 0); the value is an arbitrary uint64, 0 when n <= 0"
	stdSpecs["slices.Insert"] = nil
	delete(stdSpecs, "slices.Insert")
	stdSpecs["log.Panicf"] = specNoReturn
	stdSpecs["log.Fatalf"] = specNoReturn
	stdSpecs["log.Fatal"] = specNoReturn
	stdSpecs["log.Panic"] = specNoReturn
	StdSpecDoc["log.Panicf"] = "log.Panicf/Fatalf never return; reaching them is a panic obligation"
	stdSpecs["(*sync.Mutex).Lock"] = specNop
	stdSpecs["(*sync.Mutex).Unlock"] = specNop
	stdSpecs["(*sync.RWMutex).Lock"] = specNop
	stdSpecs["(*sync.RWMutex).Unlock"] = specNop
	stdSpecs["(*sync.RWMutex).RLock"] = specNop
	stdSpecs["(*sync.RWMutex).RUnlock"] = specNop
	StdSpecDoc["(*sync.Mutex).Lock"] = "sync mutex operations: no effect on modelled heaps (sequential reasoning only)"
}

func specNop(f *frame, callee *ssa.Function, args []Val, in string, st *State, site ssa.Instruction) (Val, bool) {
	f.vc.useStd(callee)
	return Val{Typ: callee.Signature.Results()}, true
}

func (vc *VC) useStd(callee *ssa.Function) {
	full := callee.RelString(nil)
	if o := callee.Origin(); o != nil {
		full = o.RelString(nil)
	}
	if d, ok := StdSpecDoc[full]; ok {
		vc.note("stdspec %s: %s", full, d)
	} else {
		vc.note("stdspec %s", full)
	}
}

func specNoReturn(f *frame, callee *ssa.Function, args []Val, in string, st *State, site ssa.Instruction) (Val, bool) {
	vc := f.vc
	vc.useStd(callee)
	vc.obligeIn(f, "panic", callee.Name()+":"+vc.anchorAt(f.fn, site.Pos(), "call"), in, "false", site.Pos(), "call to "+callee.Name()+" must be unreachable")
	vc.assume(in, "false")
	return Val{Typ: callee.Signature.Results()}, true
}

// evalClosure evaluates a pure, loop-free closure at an argument.
func (f *frame) evalClosure(clo *Closure, args []Val, guard string, st *State, site ssa.Instruction) (Val, bool) {
	fn := clo.Fn.(*ssa.Function)
	if fn.Blocks == nil || !inlinable(fn) {
		return Val{}, false
	}
	for _, b := range fn.Blocks {
		for _, ins := range b.Instrs {
			if s, ok := ins.(*ssa.Store); ok {
				if a, isA := s.Addr.(*ssa.Alloc); !isA || escapes(a) {
					return Val{}, false
				}
			}
		}
	}
	scratch := st.Clone()
	return f.inlineCall(fn, clo.Bindings, args, guard, scratch, site), true
}

func specSortSearch(f *frame, callee *ssa.Function, args []Val, in string, st *State, site ssa.Instruction) (Val, bool) {
	vc := f.vc
	n, fv := args[0], args[1]
	if fv.Clo == nil {
		return Val{}, false
	}
	vc.useStd(callee)
	r := vc.fresh(f.prefix+"search", "Int")
	vc.assume(in, And(App("<=", "0", r), App("<=", r, n.T)))
	intT := types.Typ[types.Int]
	// safety of the closure on every index it may be called with
	anyI := vc.fresh(f.prefix+"search_any", "Int")
	gAny := And(in, App("<=", "0", anyI), App("<", anyI, n.T))
	if _, ok := f.evalClosure(fv.Clo, []Val{{T: anyI, Typ: intT}}, gAny, st, site); !ok {
		vc.note("sort.Search closure in %s is not pure/loop-free: result only range-constrained", FuncName(f.fn))
		return Val{T: r, Typ: intT}, true
	}
	g1 := And(in, App("<", r, n.T))
	v1, _ := f.evalClosure(fv.Clo, []Val{{T: r, Typ: intT}}, g1, st, site)
	vc.assume(g1, v1.T)
	g2 := And(in, App(">", r, "0"))
	v2, _ := f.evalClosure(fv.Clo, []Val{{T: App("-", r, "1"), Typ: intT}}, g2, st, site)
	vc.assume(g2, Not(v2.T))
	return Val{T: r, Typ: intT}, true
}

func specBytesIndexByte(f *frame, callee *ssa.Function, args []Val, in string, st *State, site ssa.Instruction) (Val, bool) {
	vc := f.vc
	vc.useStd(callee)
	b, c := args[0], args[1]
	r := vc.fresh(f.prefix+"indexbyte", "Int")
	at := func(i string) string {
		return App("select", st.H["Int"], App("Elem", App("sl.base", b.T), App("+", App("sl.off", b.T), i)))
	}
	n := App("sl.len", b.T)
	vc.assume(in, Or(Eq(r, "(- 1)"), And(App("<=", "0", r), App("<", r, n), Eq(at(r), c.T))))
	vc.assume(in, fmt.Sprintf("(forall ((i! Int)) (! (=> (and (<= 0 i!) (< i! (ite (= %s (- 1)) %s %s))) (not (= %s %s))) :pattern (%s)))", r, n, r, at("i!"), c.T, at("i!")))
	return Val{T: r, Typ: types.Typ[types.Int]}, true
}

func specBytesIndex(f *frame, callee *ssa.Function, args []Val, in string, st *State, site ssa.Instruction) (Val, bool) {
	vc := f.vc
	vc.useStd(callee)
	s, sep := args[0], args[1]
	r := vc.fresh(f.prefix+"bytesindex", "Int")
	at := func(sl, i string) string {
		return App("select", st.H["Int"], App("at_", sl, i))
	}
	vc.assume(in, Or(Eq(r, "(- 1)"), And(App("<=", "0", r), App("<=", App("+", r, App("sl.len", sep.T)), App("sl.len", s.T)))))
	vc.assume(in, fmt.Sprintf("(=> (>= %s 0) (forall ((j! Int)) (! (=> (and (<= 0 j!) (< j! (sl.len %s))) (= %s %s)) :pattern ((at_ %s j!)))))", r, sep.T, at(s.T, App("+", r, "j!")), at(sep.T, "j!"), sep.T))
	return Val{T: r, Typ: types.Typ[types.Int]}, true
}

func specRuneCount(f *frame, callee *ssa.Function, args []Val, in string, st *State, site ssa.Instruction) (Val, bool) {
	vc := f.vc
	vc.useStd(callee)
	return Val{T: vc.runeCountTerm(st.H["Int"], args[0].T), Typ: types.Typ[types.Int]}, true
}

func specUvarint(f *frame, callee *ssa.Function, args []Val, in string, st *State, site ssa.Instruction) (Val, bool) {
	vc := f.vc
	vc.useStd(callee)
	buf := args[0]
	v := vc.fresh(f.prefix+"uvarint_v", "Int")
	n := vc.fresh(f.prefix+"uvarint_n", "Int")
	l := App("sl.len", buf.T)
	// exact byte-level definition of the returned length (from the library
	// source): k = first index <= 9 with buf[k] < 0x80; n = k+1 (or -10 when
	// k == 9 and buf[9] > 1); no such k: -11 when len > 10, else 0.
	bk := func(k int) string { return App("select", st.H["Int"], App("at_", buf.T, fmt.Sprint(k))) }
	e := Ite(App(">", l, "10"), "(- 11)", "0")
	for k := 9; k >= 0; k-- {
		res := fmt.Sprint(k + 1)
		if k == 9 {
			res = Ite(App(">", bk(9), "1"), "(- 10)", "10")
		}
		e = Ite(App(">=", fmt.Sprint(k), l), "0", Ite(App("<", bk(k), "128"), res, e))
	}
	vc.assume(in, Eq(n, e))
	// the decoded value: sum of the 7-bit groups of the first n bytes
	var groups []string
	for k := 0; k <= 9; k++ {
		groups = append(groups, Ite(App("<", fmt.Sprint(k), n), App("*", App("mod", bk(k), "128"), BigLit(Pow2(7*k))), "0"))
	}
	vc.assume(in, Implies(App(">", n, "0"), Eq(v, App("+", groups...))))
	vc.assume(in, And(RangeOf(types.Typ[types.Uint64], v), App("<=", "(- 11)", n), App("<=", n, "10"), App("<=", n, l), App("<=", App("-", n), l)))
	vc.assume(in, Implies(Eq(l, "0"), Eq(n, "0")))
	vc.assume(in, Implies(App("<=", n, "0"), Eq(v, "0")))
	tup := callee.Signature.Results()
	return Val{Typ: tup, Tuple: []Val{{T: v, Typ: tup.At(0).Type()}, {T: n, Typ: tup.At(1).Type()}}}, true
}

// stdSpecMods reports what a std call inside a loop may write.
func stdSpecMods(f *frame, full string, cc *ssa.CallCommon) ([]modPat, bool) {
	if full == "slices.Insert" {
		var pats []modPat
		et := cc.Args[0].Type().Underlying().(*types.Slice).Elem()
		for _, lf := range f.vc.leaves(et) {
			pats = append(pats, modPat{sort: lf.sort, steps: append([]step{{elem: true}}, lf.steps...)})
		}
		return pats, true
	}
	if _, ok := stdSpecs[full]; ok {
		return nil, true
	}
	return nil, false
}

// ---- interface method contracts ----

func (f *frame) ifaceSpecCall(x *ssa.Call, recv Val, args []Val, in string, st *State) bool {
	return false
}

func (f *frame) ifaceModPats(cc *ssa.CallCommon) ([]modPat, bool) {
	vc := f.vc
	// interface methods whose implementations are known not to write modelled memory
	name := cc.Value.Type().String() + "." + cc.Method.Name()
	if vc.isPureExternal("(" + cc.Value.Type().String() + ")." + cc.Method.Name()) {
		return nil, true
	}
	_ = name
	// an interface-method contract with an assigns clause gives a type-level frame
	if spec := vc.Eng.Spec.Funcs[ifaceKey(cc.Value.Type(), cc.Method.Name())]; spec != nil && spec.HasAssign {
		var pats []modPat
		sig := cc.Method.Type().(*types.Signature)
		env := &Env{vc: vc, st: f.entry, old: f.entry, vars: map[string]Val{}, fn: f.fn, specFile: spec.File}
		env.vars["recv"] = Val{T: "Null", Typ: cc.Value.Type()}
		for i := 0; i < sig.Params().Len(); i++ {
			pn := sig.Params().At(i).Name()
			if i < len(spec.ParamNames) {
				pn = spec.ParamNames[i]
			}
			env.vars[pn] = Val{T: "Null", Typ: sig.Params().At(i).Type()}
		}
		for _, c := range spec.Assigns {
			_, t, steps, ok := vc.specAddr(env, c.Expr)
			if !ok {
				return nil, false
			}
			for _, lf := range vc.leaves(t) {
				ss := append(append([]step{}, steps...), lf.steps...)
				for i := range ss {
					ss[i].idx = ""
				}
				pats = append(pats, modPat{sort: lf.sort, steps: ss})
			}
		}
		return pats, true
	}
	return nil, false
}

func init() {
	stdSpecs["slices.Insert"] = specSlicesInsert
	StdSpecDoc["slices.Insert"] = "slices.Insert(s,i,v) with one value: requires 0<=i<=len(s); result has len(s)+1 elements, r[k]=s[k] for k<i, r[i]=v, r[k+1]=s[k] for k>=i; reuses s's array when cap suffices, else a fresh array; only element cells of the result's array change"
}

// specSlicesInsert models slices.Insert for a single inserted value.
func specSlicesInsert(f *frame, callee *ssa.Function, args []Val, in string, st *State, site ssa.Instruction) (Val, bool) {
	vc := f.vc
	call, ok := site.(*ssa.Call)
	if !ok || len(args) != 3 {
		return Val{}, false
	}
	if k, isConst := f.constSliceLen(call.Call.Args[2]); !isConst || k != 1 {
		return Val{}, false
	}
	vc.useStd(callee)
	if f.inDeclLoop(site.Block()) {
		vc.unsupported("slices.Insert inside a loop with a declared assigns frame")
	}
	s, idx, vs := args[0], args[1], args[2]
	et := s.Typ.Underlying().(*types.Slice).Elem()
	slen := App("sl.len", s.T)
	vc.obligeIn(f, "bounds", "slices.Insert:"+vc.anchorAt(f.fn, site.Pos(), "call"), in, And(App("<=", "0", idx.T), App("<=", idx.T, slen)), site.Pos(), "slices.Insert index in range")
	pre := st.Clone()
	// the inserted value, read before the heap changes
	v := vc.define(f.prefix+call.Name()+"_v", vc.sorts.SortOf(et), vc.loadVal(pre, App("at_", vs.T, "0"), et, in, true))
	newLen := vc.define(f.prefix+call.Name()+"_len", "Int", App("+", slen, "1"))
	fits := vc.define(f.prefix+call.Name()+"_fits", "Bool", App("<=", newLen, App("sl.cap", s.T)))
	fresh := f.alloc(call.Name(), in, st)
	newCap := vc.fresh(f.prefix+call.Name()+"_cap", "Int")
	vc.assert(App(">=", newCap, newLen))
	r := vc.defineConst(f.prefix+call.Name(), "Slice", Ite(fits, App("mk-slice", App("sl.base", s.T), App("sl.off", s.T), newLen, App("sl.cap", s.T)), App("mk-slice", fresh, "0", newLen, newCap)))
	newH := f.bulkHeaps(st, pre, et, "ins", func(lf leaf) string {
		pat := modPat{sort: lf.sort, base: App("sl.base", r), steps: append([]step{{elem: true}}, lf.steps...)}
		return pat.matchCond("l!")
	})
	for _, lf := range vc.leaves(et) {
		if hasElemStep(lf.steps) {
			vc.unsupported("slices.Insert of elements containing arrays")
			continue
		}
		old := pre.H[lf.sort]
		h := newH[lf.sort]
		dst := func(k string) string { return App("select", h, applySteps(App("at_", r, k), lf.steps)) }
		src := func(k string) string { return App("select", old, applySteps(App("at_", s.T, k), lf.steps)) }
		// leaf of the inserted value
		var vleaf string
		if len(lf.steps) == 0 {
			vleaf = v
		} else {
			// project the struct value along the field steps
			vleaf = vc.projectLeaf(v, et, lf.steps)
		}
		vc.assume(in, fmt.Sprintf("(forall ((k! Int)) (! (=> (and (<= 0 k!) (< k! %s)) (= %s (ite (< k! %s) %s (ite (= k! %s) %s %s)))) :pattern ((at_ %s k!))))",
			newLen, dst("k!"), idx.T, src("k!"), idx.T, vleaf, src("(- k! 1)"), r))
	}
	return Val{T: r, Typ: s.Typ}, true
}

// projectLeaf selects, from a struct-typed term, the scalar reached by field steps.
func (vc *VC) projectLeaf(term string, t types.Type, steps []step) string {
	cur, ct := term, t
	for _, s := range steps {
		st, ok := ct.Underlying().(*types.Struct)
		if !ok {
			return term
		}
		found := false
		for i := 0; i < st.NumFields(); i++ {
			if vc.sorts.FieldID(ct, i) == s.fld {
				cur = App(fmt.Sprintf("%s.f%d", vc.sorts.SortOf(ct), i), cur)
				ct = st.Field(i).Type()
				found = true
				break
			}
		}
		if !found {
			return term
		}
	}
	return cur
}
