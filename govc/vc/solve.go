package vc

import (
	"bytes"
	"context"
	"fmt"
	"os"
	"os/exec"
	"path/filepath"
	"strings"
	"sync"
	"time"
)

// Result of discharging one obligation.
type Result struct {
	Obl     *Obligation
	Status  string // "unsat", "sat", "unknown", "timeout", "error"
	Solver  string
	Seconds float64
	Output  string
	Model   map[string]string
	OK      bool // status matches expectation
}

type SolverCfg struct {
	Name string
	Cmd  []string // query file appended
}

func Solvers(timeoutS int) []SolverCfg {
	ms := fmt.Sprint(timeoutS * 1000)
	return []SolverCfg{
		{"z3-new", []string{"z3-new", "-T:" + fmt.Sprint(timeoutS), "-smt2"}},
		{"z3-new-nac", []string{"z3-new", "-T:" + fmt.Sprint(timeoutS), "smt.auto_config=false", "-smt2"}},
		{"z3", []string{"z3", "-T:" + fmt.Sprint(timeoutS), "-smt2"}},
		{"cvc5", []string{"cvc5", "--tlimit=" + ms, "--lang=smt2", "--produce-models"}},
	}
}

func runSolver(ctx context.Context, s SolverCfg, file string) (status, out string, secs float64) {
	t0 := time.Now()
	cmd := exec.CommandContext(ctx, s.Cmd[0], append(s.Cmd[1:], file)...)
	var buf bytes.Buffer
	cmd.Stdout = &buf
	cmd.Stderr = &buf
	_ = cmd.Run()
	secs = time.Since(t0).Seconds()
	out = buf.String()
	first := ""
	for _, ln := range strings.Split(out, "\n") {
		ln = strings.TrimSpace(ln)
		if ln == "sat" || ln == "unsat" || ln == "unknown" || ln == "timeout" {
			first = ln
			break
		}
		if strings.HasPrefix(ln, "(error") {
			first = "error"
			break
		}
	}
	if first == "" {
		if ctx.Err() != nil {
			first = "timeout"
		} else {
			first = "error"
		}
	}
	return first, out, secs
}

// Discharge runs one obligation through the solver portfolio: z3-new first
// with a short budget, then all solvers in a race with the full timeout.
func Discharge(o *Obligation, dir string, idx int, timeoutS int, allAgree bool) *Result {
	q := o.Query()
	file := filepath.Join(dir, fmt.Sprintf("q%05d.smt2", idx))
	_ = os.WriteFile(file, []byte(q), 0o644)
	defer os.Remove(file)
	want := "unsat"
	res := &Result{Obl: o}
	if o.ExpectSat {
		// vacuity cover: fails only when the solver proves the path infeasible
		ctx, cancel := context.WithTimeout(context.Background(), 4*time.Second)
		s := Solvers(3)[0]
		st, out, secs := runSolver(ctx, s, file)
		cancel()
		res.Status, res.Solver, res.Output, res.Seconds = st, s.Name, out, secs
		res.OK = st != "unsat"
		return res
	}
	solvers := Solvers(timeoutS)
	quick := 3
	if quick > timeoutS {
		quick = timeoutS
	}
	total := 0.0
	// stage 1: the two z3-new configurations, short budget, first decisive answer wins
	{
		ctx, cancel := context.WithTimeout(context.Background(), time.Duration(quick+1)*time.Second)
		type a1 struct {
			st, out, name string
			secs          float64
		}
		ch1 := make(chan a1, 2)
		for _, s := range Solvers(quick)[:2] {
			go func(s SolverCfg) {
				st, out, secs := runSolver(ctx, s, file)
				ch1 <- a1{st, out, s.Name, secs}
			}(s)
		}
		done := false
		for i := 0; i < 2; i++ {
			a := <-ch1
			if done {
				continue
			}
			if a.st == "sat" || a.st == "unsat" {
				done = true
				cancel()
				total += a.secs
				res.Status, res.Solver, res.Output, res.Seconds = a.st, a.name, a.out, total
			} else if i == 1 {
				total += a.secs
			}
		}
		cancel()
		if done && !allAgree {
			res.OK = res.Status == want
			res.Model = parseModel(o, res.Output)
			return res
		}
	}
	// stage 2: race
	type ans struct {
		st, out, name string
		secs          float64
	}
	ctx, cancel := context.WithTimeout(context.Background(), time.Duration(timeoutS+2)*time.Second)
	defer cancel()
	ch := make(chan ans, len(solvers))
	var wg sync.WaitGroup
	for _, s := range solvers {
		wg.Add(1)
		go func(s SolverCfg) {
			defer wg.Done()
			st, out, secs := runSolver(ctx, s, file)
			ch <- ans{st, out, s.Name, secs}
		}(s)
	}
	go func() { wg.Wait(); close(ch) }()
	var all []ans
	for a := range ch {
		all = append(all, a)
		if !allAgree && (a.st == "sat" || a.st == "unsat") {
			cancel()
			res.Status, res.Solver, res.Output, res.Seconds = a.st, a.name, a.out, total+a.secs
			res.OK = a.st == want
			res.Model = parseModel(o, a.out)
			return res
		}
	}
	if allAgree {
		var decided []ans
		for _, a := range all {
			if a.st == "sat" || a.st == "unsat" {
				decided = append(decided, a)
			}
		}
		if len(decided) > 0 {
			agree := true
			for _, a := range decided[1:] {
				if a.st != decided[0].st {
					agree = false
				}
			}
			var names []string
			mx := 0.0
			for _, a := range decided {
				names = append(names, a.name)
				if a.secs > mx {
					mx = a.secs
				}
			}
			if !agree {
				res.Status, res.Solver, res.Seconds = "disagree", strings.Join(names, "+"), total+mx
				for _, a := range decided {
					res.Output += a.name + ": " + a.st + "\n"
				}
				return res
			}
			res.Status, res.Solver, res.Output, res.Seconds = decided[0].st, strings.Join(names, "+"), decided[0].out, total+mx
			res.OK = res.Status == want
			res.Model = parseModel(o, decided[0].out)
			return res
		}
	}
	// undecided
	res.Status = "unknown"
	mx := 0.0
	for _, a := range all {
		res.Output += fmt.Sprintf("%s: %s (%.1fs)\n", a.name, a.st, a.secs)
		if a.st == "timeout" {
			res.Status = "timeout"
		}
		if a.st == "error" {
			res.Output += a.out + "\n"
		}
		if a.secs > mx {
			mx = a.secs
		}
	}
	res.Seconds = total + mx
	return res
}

// parseModel reads the (get-value ...) answer following "sat".
func parseModel(o *Obligation, out string) map[string]string {
	if len(o.ModelTerms) == 0 {
		return nil
	}
	i := strings.Index(out, "sat")
	if i < 0 || strings.HasPrefix(strings.TrimSpace(out), "unsat") {
		return nil
	}
	rest := out[i+3:]
	vals := parseGetValue(rest)
	m := map[string]string{}
	for k, mt := range o.ModelTerms {
		if k < len(vals) {
			m[mt.Name] = vals[k]
		}
	}
	return m
}

// parseGetValue extracts the value parts of "((t1 v1) (t2 v2) ...)".
func parseGetValue(s string) []string {
	s = strings.TrimSpace(s)
	if !strings.HasPrefix(s, "(") {
		return nil
	}
	// tokenise into top-level pairs
	var vals []string
	depth := 0
	start := -1
	for i := 0; i < len(s); i++ {
		switch s[i] {
		case '(':
			depth++
			if depth == 2 {
				start = i
			}
		case ')':
			if depth == 2 && start >= 0 {
				pair := s[start+1 : i]
				// split pair into term and value: term is first s-expr
				pair = strings.TrimSpace(pair)
				end := sexprEnd(pair)
				vals = append(vals, strings.TrimSpace(pair[end:]))
				start = -1
			}
			depth--
			if depth == 0 {
				return vals
			}
		}
	}
	return vals
}

func sexprEnd(s string) int {
	if len(s) == 0 {
		return 0
	}
	if s[0] != '(' {
		i := strings.IndexAny(s, " \t\n)")
		if i < 0 {
			return len(s)
		}
		return i
	}
	d := 0
	for i := 0; i < len(s); i++ {
		if s[i] == '(' {
			d++
		} else if s[i] == ')' {
			d--
			if d == 0 {
				return i + 1
			}
		}
	}
	return len(s)
}

// DischargeAll runs the obligations with a worker pool.
func DischargeAll(obls []*Obligation, timeoutS, workers int, allAgree bool) []*Result {
	dir, err := os.MkdirTemp("", "govc-q")
	if err != nil {
		panic(err)
	}
	defer os.RemoveAll(dir)
	res := make([]*Result, len(obls))
	var wg sync.WaitGroup
	sem := make(chan struct{}, workers)
	for i, o := range obls {
		wg.Add(1)
		sem <- struct{}{}
		go func(i int, o *Obligation) {
			defer wg.Done()
			defer func() { <-sem }()
			if o.Goal == "true" && !o.ExpectSat {
				res[i] = &Result{Obl: o, Status: "unsat", Solver: "trivial", OK: true}
				return
			}
			res[i] = Discharge(o, dir, i, timeoutS, allAgree)
		}(i, o)
	}
	wg.Wait()
	return res
}
