package vc

import (
	"fmt"
	"go/ast"
	"go/types"
	"os"
	"path/filepath"
	"sort"
	"strings"

	"golang.org/x/tools/go/packages"
	"golang.org/x/tools/go/ssa"
	"golang.org/x/tools/go/ssa/ssautil"
)

// Engine holds the loaded program and contracts.
type Engine struct {
	Prog      *ssa.Program
	Pkgs      []*packages.Package
	SSAPkgs   []*ssa.Package
	Spec      *SpecFile
	funcs     map[string]*ssa.Function
	pkgFiles  map[*types.Package][]*ast.File
	RepoDir   string
	SpecFiles []string
}

// Load type-checks the given package patterns of repoDir with -tags verif,
// builds SSA and parses every zz_verif_contracts.go found in those packages.
func Load(repoDir string, patterns []string) (*Engine, error) {
	cfg := &packages.Config{Mode: packages.LoadAllSyntax, Dir: repoDir, BuildFlags: []string{"-tags=verif"}, Tests: false}
	pkgs, err := packages.Load(cfg, patterns...)
	if err != nil {
		return nil, err
	}
	var errs []string
	packages.Visit(pkgs, nil, func(p *packages.Package) {
		for _, e := range p.Errors {
			errs = append(errs, e.Error())
		}
	})
	if len(errs) > 0 {
		return nil, fmt.Errorf("load errors: %s", strings.Join(errs, "; "))
	}
	prog, spkgs := ssautil.AllPackages(pkgs, ssa.InstantiateGenerics|ssa.GlobalDebug)
	e := &Engine{Prog: prog, Pkgs: pkgs, SSAPkgs: spkgs, Spec: NewSpecFile(), funcs: map[string]*ssa.Function{}, pkgFiles: map[*types.Package][]*ast.File{}, RepoDir: repoDir}
	// build all packages of the main module plus on-demand dependencies
	prog.Build()
	packages.Visit(pkgs, nil, func(p *packages.Package) {
		if p.Types != nil {
			e.pkgFiles[p.Types] = p.Syntax
		}
	})
	for fn := range ssautil.AllFunctions(prog) {
		if fn.Pkg == nil && fn.Parent() == nil {
			continue
		}
		e.funcs[FuncName(fn)] = fn
	}
	// contract files: every zz_verif_contracts.go under the repo
	err = filepath.Walk(repoDir, func(path string, info os.FileInfo, err error) error {
		if err != nil {
			return nil
		}
		if info.IsDir() && (info.Name() == ".git" || info.Name() == "node_modules") {
			return filepath.SkipDir
		}
		if !info.IsDir() && strings.HasPrefix(info.Name(), "zz_verif_contracts") && strings.HasSuffix(info.Name(), ".go") {
			e.SpecFiles = append(e.SpecFiles, path)
		}
		return nil
	})
	sort.Strings(e.SpecFiles)
	// assumed contracts of library functions (trusted base), kept with the verifier
	vd := os.Getenv("VERIF_DIR")
	if vd == "" {
		vd = "/verif"
	}
	if std, _ := filepath.Glob(filepath.Join(vd, "stdcontracts", "*.txt")); len(std) > 0 {
		sort.Strings(std)
		e.SpecFiles = append(e.SpecFiles, std...)
	}
	for _, sfp := range e.SpecFiles {
		if err := e.Spec.ParseSpecFile(sfp); err != nil {
			return nil, err
		}
	}
	if err := e.Spec.CheckAlternatives(); err != nil {
		return nil, err
	}
	return e, err
}

func (e *Engine) filesOf(p *types.Package) []*ast.File { return e.pkgFiles[p] }

func (e *Engine) Func(name string) *ssa.Function { return e.funcs[name] }

// FuncNames lists the known functions with a given prefix (for diagnostics).
func (e *Engine) FuncNames(sub string) []string {
	var out []string
	for n := range e.funcs {
		if strings.Contains(n, sub) {
			out = append(out, n)
		}
	}
	sort.Strings(out)
	return out
}

// Verify generates the obligations for one function under its contract.
func (e *Engine) Verify(name string) (*VC, error) {
	// name may carry a contract variant: "pkg.Func#variant"
	base := name
	if i := strings.Index(name, "#"); i >= 0 {
		base = name[:i]
	}
	fn := e.funcs[base]
	if fn == nil {
		return nil, fmt.Errorf("function %s not found", base)
	}
	if fn.Blocks == nil {
		return nil, fmt.Errorf("function %s has no body", name)
	}
	spec := e.Spec.Funcs[name]
	if spec == nil {
		spec = &FuncSpec{Name: name, Loops: map[int]*LoopSpec{}, Flags: map[string]string{}}
	}
	if spec.Extends != "" {
		b := e.Spec.Funcs[spec.Extends]
		if b == nil {
			return nil, fmt.Errorf("contract %s extends unknown contract %s", name, spec.Extends)
		}
		m := *b
		m.Name = spec.Name
		m.Requires = append(append([]*Clause{}, b.Requires...), spec.Requires...)
		m.Ensures = append(append([]*Clause{}, b.Ensures...), spec.Ensures...)
		m.Lets = append(append([]*Clause{}, b.Lets...), spec.Lets...)
		m.Loops = map[int]*LoopSpec{}
		for k, v := range b.Loops {
			m.Loops[k] = v
		}
		for k, v := range spec.Loops {
			if bl := m.Loops[k]; bl != nil {
				nl := *bl
				nl.Invariants = append(append([]*Clause{}, bl.Invariants...), v.Invariants...)
				if v.Decreases != nil {
					nl.Decreases = v.Decreases
				}
				m.Loops[k] = &nl
			} else {
				m.Loops[k] = v
			}
		}
		renum := func(cs []*Clause) []*Clause {
			out := make([]*Clause, len(cs))
			for i, c := range cs {
				cc := *c
				cc.Idx = i + 1
				out[i] = &cc
			}
			return out
		}
		m.Requires, m.Ensures = renum(m.Requires), renum(m.Ensures)
		for k, l := range m.Loops {
			nl := *l
			nl.Invariants = renum(l.Invariants)
			m.Loops[k] = &nl
		}
		m.PanicOK = spec.PanicOK
		m.MayPanic = spec.MayPanic
		m.Extends = ""
		spec = &m
	}
	WrapInt64 = spec.Flags["int64"] == "wrap"
	defer func() { WrapInt64 = false }()
	if spec.Trusted {
		// assumed contract: nothing is generated; callers rely on it and the evidence lists it
		tv := e.NewVC(fn, spec)
		tv.note("TRUSTED contract (assumed, body not verified): %s (%s:%d)", name, strings.TrimPrefix(spec.File, "/repo/"), spec.Line)
		return tv, nil
	}
	vc := e.NewVC(fn, spec)
	if base != name {
		vc.Variant = name[len(base):]
	}
	if len(spec.Foreach) > 0 {
		// expand per-field postconditions from the struct type as it is NOW
		ns := *spec
		ns.Ensures = append([]*Clause{}, spec.Ensures...)
		tenv := &Env{vc: vc, vars: map[string]Val{}, fn: fn}
		for _, fe := range spec.Foreach {
			t := vc.resolveType(tenv, fe.Type)
			st, ok := (types.Type)(nil), false
			var sst *types.Struct
			if t != nil {
				sst, ok = t.Underlying().(*types.Struct)
			}
			_ = st
			if !ok {
				return nil, fmt.Errorf("%s:%d: foreach_field: %s is not a struct type", fe.File, fe.Line, fe.Type)
			}
			skip := map[string]bool{}
			for _, e := range fe.Except {
				skip[e] = true
			}
			for i := 0; i < sst.NumFields(); i++ {
				fl := sst.Field(i)
				b, isBasic := fl.Type().Underlying().(*types.Basic)
				if !isBasic || b.Info()&types.IsInteger == 0 || skip[fl.Name()] {
					continue
				}
				txt := strings.ReplaceAll(fe.Template, "$f", fl.Name())
				// $wrap(e): e reduced to the field's type when it is unsigned (machine wrap-around), e itself otherwise
				if b.Info()&types.IsUnsigned != 0 {
					txt = strings.ReplaceAll(txt, "$wrap(", b.Name()+"(")
				} else {
					txt = strings.ReplaceAll(txt, "$wrap(", "(")
				}
				ex, err := ParseSpecExpr(txt)
				if err != nil {
					return nil, fmt.Errorf("%s:%d: foreach_field template: %v", fe.File, fe.Line, err)
				}
				ns.Ensures = append(ns.Ensures, &Clause{Kind: "ensures", Text: txt + "   [generated for field " + fl.Name() + "]", Expr: ex, Line: fe.Line, File: fe.File, Idx: len(ns.Ensures) + 1, Tag: "field." + fl.Name()})
			}
		}
		spec = &ns
		vc.Spec = spec
	}
	st := &State{H: map[string]string{}, Top: "top_0"}
	vc.declare("top_0", "Int")
	vc.assert("(>= top_0 1000000)")
	for _, s := range HeapSorts {
		st.H[s] = "H_" + s + "_0"
		vc.declare(st.H[s], "(Array Loc "+s+")")
	}
	vc.Entry = st
	vc.preregisterMaps(fn, 0, map[*ssa.Function]bool{})
	for _, k := range vc.extraOrder {
		st.H[k] = k + "_0"
	}
	vc.assertHeapWF(st, nil)
	f := vc.newFrame(fn, spec, true, "true", 0)
	f.entry = st.Clone()
	for _, p := range fn.Params {
		v := f.freshVal("p_"+p.Name(), p.Type(), "true", st)
		f.vals[p] = v
		vc.Params[p.Name()] = v
		vc.ParamOrder = append(vc.ParamOrder, p.Name())
	}
	for _, fv := range fn.FreeVars {
		v := f.freshVal("fv_"+fv.Name(), fv.Type(), "true", st)
		f.vals[fv] = v
		vc.assert(Not(Eq(v.T, "Null")))
		// a captured variable is a heap object of its own, distinct from the others
		vc.assert(Eq(App("pth", v.T), "PNil"))
		for _, other := range fn.FreeVars {
			if other == fv {
				break
			}
			vc.assert(Not(Eq(App("rt", v.T), App("rt", f.vals[other].T))))
		}
	}
	// axioms of the contract files
	axEnv := &Env{vc: vc, st: st, old: st, vars: map[string]Val{}, fn: fn}
	for _, ax := range e.Spec.Axioms {
		if !vc.axiomRelevant(ax) {
			continue
		}
		t := vc.evalSpec(axEnv, ax.Expr)
		vc.assert(t.T)
		vc.note("axiom %s (%s:%d): %s", ax.Name, strings.TrimPrefix(ax.File, "/repo/"), ax.Line, ax.Text)
		if ax.State {
			vc.stateAxioms = append(vc.stateAxioms, ax)
		}
	}
	// receivers of methods are non-nil only if required; preconditions:
	env := f.baseEnv(st)
	var reqs []string
	for _, c := range spec.Requires {
		t := vc.evalSpec(env, c.Expr)
		vc.assert(t.T)
		reqs = append(reqs, t.T)
	}
	// vacuity: the preconditions together with the type invariants are satisfiable
	cov := vc.oblige("cover", "requires", "true", "true", "", "preconditions are satisfiable")
	cov.ExpectSat = true
	f.run(st)
	for i, a := range spec.Asserts {
		if !f.assertHit[i] && a.Update != "" {
			// a ghost update attached to an event that does not occur in the code
			// simply never happens (assertions about the ghost then decide)
			vc.note("ghost update at %q: no such instruction in %s (the update never happens)", a.Anchor, name)
			continue
		}
		if !f.assertHit[i] {
			vc.unsupported("spec: assert anchor %q matched no instruction of %s", a.Anchor, name)
		}
	}
	// postconditions at each return
	for _, r := range f.rets {
		vc.assumeStateAxioms(fn, r.st, "", r.guard)
	}
	for ri, r := range f.rets {
		penv := f.baseEnv(r.st)
		penv.old = f.entry
		var res Val
		switch len(r.vals) {
		case 0:
		case 1:
			res = r.vals[0]
		default:
			res = Val{Tuple: r.vals}
		}
		penv.setResults(fn, res)
		for _, c := range spec.Ensures {
			t := vc.evalSpec(penv, c.Expr)
			anchor := fmt.Sprint(c.Idx)
			if c.Tag != "" {
				anchor = c.Tag
			}
			if spec.Flags["split_returns"] != "" && r.blk != nil && len(r.blk.Preds) > 1 {
				// one obligation per edge into the return block: the solver need not
				// split the merged state (phi) into its cases itself
				for j, p := range r.blk.Preds {
					g, ok := f.edgeG[[2]int{p.Index, r.blk.Index}]
					if !ok {
						continue
					}
					vc.oblige("ensures", fmt.Sprintf("%s@ret%d~e%d", anchor, ri+1, j+1), And(r.guard, g), t.T, fmt.Sprintf("%s:%d", strings.TrimPrefix(c.File, "/repo/"), c.Line), c.Text)
				}
				continue
			}
			o := vc.oblige("ensures", fmt.Sprintf("%s@ret%d", anchor, ri+1), r.guard, t.T, fmt.Sprintf("%s:%d", strings.TrimPrefix(c.File, "/repo/"), c.Line), c.Text)
			_ = o
		}
		if spec.HasAssign {
			pats := vc.assignPats(env, spec.Assigns)
			for _, srt := range vc.allHeaps() {
				if r.st.H[srt] == f.entry.H[srt] {
					continue
				}
				sk := vc.fresh("frame_l", "Loc")
				var ms []string
				all := false
				for _, p := range pats {
					if p.sort != srt {
						continue
					}
					if p.all {
						all = true
					}
					ms = append(ms, p.matchCond(sk))
				}
				if all {
					continue
				}
				goal := Implies(And(App("(_ is L)", sk), App("<=", App("rt", sk), f.entry.Top), Not(Or(ms...))), Eq(App("select", vc.heapOf(r.st, srt), sk), App("select", vc.heapOf(f.entry, srt), sk)))
				vc.oblige("assigns", fmt.Sprintf("%s@ret%d", srt, ri+1), r.guard, goal, "", "only declared locations of sort "+srt+" are modified")
			}
		}
		for pi, p := range vc.assignPats(env, spec.Preserves) {
			hn, ho := vc.heapOf(r.st, p.sort), vc.heapOf(f.entry, p.sort)
			if hn == ho {
				continue
			}
			sk := vc.fresh("pres_l", "Loc")
			goal := Implies(And(p.matchCond(sk), App("<=", App("rt", sk), f.entry.Top)), Eq(App("select", hn, sk), App("select", ho, sk)))
			vc.oblige("preserves", fmt.Sprintf("%d@ret%d", pi+1, ri+1), r.guard, goal, "", "declared-preserved locations are not modified: "+spec.Preserves[minInt(pi, len(spec.Preserves)-1)].Text)
		}
		if isDeadReturn(f.rets, ri, spec.DeadReturns) {
			// declared unreachable: prove it (the path condition is unsatisfiable)
			vc.oblige("dead", fmt.Sprintf("ret%d", ri+1), r.guard, "false", vc.posOf(r.pos), "this return statement is unreachable (declared dead_return)")
			continue
		}
		cv := vc.oblige("cover", fmt.Sprintf("ret%d", ri+1), r.guard, "true", vc.posOf(r.pos), "return point is reachable under the preconditions")
		cv.ExpectSat = true
	}
	if len(f.rets) == 0 && !spec.MayPanic {
		vc.unsupported("function %s has no reachable return", name)
	}
	return vc, nil
}

// assumeStateAxioms assumes the state axioms for the objects of state st (with
// lo != "": only those allocated after lo).
func (vc *VC) assumeStateAxioms(fn *ssa.Function, st *State, lo, guard string) {
	for _, ax := range vc.stateAxioms {
		env := &Env{vc: vc, st: st, old: st, vars: map[string]Val{}, fn: fn, allocLo: lo}
		t := vc.evalSpec(env, ax.Expr)
		vc.assume(guard, t.T)
	}
}

// isDeadReturn: return ri is, counted from the end in source order, one of the
// declared dead returns (-1 = the last return statement of the function).
func isDeadReturn(rets []retInfo, ri int, dead []int) bool {
	if len(dead) == 0 {
		return false
	}
	later := 0
	for j := range rets {
		if rets[j].pos > rets[ri].pos {
			later++
		}
	}
	for _, k := range dead {
		if -k-1 == later {
			return true
		}
	}
	return false
}

func (vc *VC) allHeaps() []string {
	return append(append([]string{}, HeapSorts...), vc.extraOrder...)
}

// axiomRelevant: an axiom of the function's own package is included when it
// mentions no abstract spec function at all, or when at least one abstract
// function it mentions is used (transitively through pure functions) by the
// contract of the function under verification or by the contract of a function
// it may call. Axioms about spec functions the proof cannot mention only cost
// solver time (and can start matching loops).
func (vc *VC) axiomRelevant(ax *Axiom) bool {
	pkgOf := func(path string) string { return filepath.Dir(path) }
	fn := vc.Fn
	for fn.Parent() != nil {
		fn = fn.Parent()
	}
	if fn.Pkg == nil {
		return false
	}
	pos := vc.Eng.Prog.Fset.Position(fn.Pos())
	if pkgOf(pos.Filename) != pkgOf(ax.File) {
		return false
	}
	if vc.usedSpecFuncs == nil {
		vc.usedSpecFuncs = vc.computeUsedSpecFuncs()
	}
	mentionsAbstract := false
	for _, id := range specIdents(ax.Text) {
		if pf := vc.Eng.Spec.Pures[id]; pf != nil {
			if pf.Abstract {
				mentionsAbstract = true
			}
			if vc.usedSpecFuncs[id] {
				return true
			}
		}
	}
	return !mentionsAbstract
}

func specIdents(text string) []string {
	var out []string
	i := 0
	for i < len(text) {
		c := text[i]
		if c == '_' || (c >= 'a' && c <= 'z') || (c >= 'A' && c <= 'Z') {
			j := i
			for j < len(text) && (text[j] == '_' || (text[j] >= 'a' && text[j] <= 'z') || (text[j] >= 'A' && text[j] <= 'Z') || (text[j] >= '0' && text[j] <= '9')) {
				j++
			}
			out = append(out, text[i:j])
			i = j
			continue
		}
		i++
	}
	return out
}

func specTexts(fs *FuncSpec) []string {
	var out []string
	add := func(cs []*Clause) {
		for _, c := range cs {
			out = append(out, c.Text)
		}
	}
	add(fs.Requires)
	add(fs.Ensures)
	add(fs.Lets)
	add(fs.Assigns)
	for _, l := range fs.Loops {
		add(l.Invariants)
		add(l.Assigns)
		if l.Decreases != nil {
			out = append(out, l.Decreases.Text)
		}
	}
	for _, a := range fs.Asserts {
		out = append(out, a.C.Text)
	}
	for _, fe := range fs.Foreach {
		out = append(out, fe.Template)
	}
	return out
}

func (vc *VC) computeUsedSpecFuncs() map[string]bool {
	used := map[string]bool{}
	var work []string
	addText := func(t string) {
		for _, id := range specIdents(t) {
			if vc.Eng.Spec.Pures[id] != nil && !used[id] {
				used[id] = true
				work = append(work, id)
			}
		}
	}
	addSpec := func(fs *FuncSpec) {
		if fs == nil {
			return
		}
		for _, t := range specTexts(fs) {
			addText(t)
		}
		if fs.Extends != "" {
			if b := vc.Eng.Spec.Funcs[fs.Extends]; b != nil {
				for _, t := range specTexts(b) {
					addText(t)
				}
			}
		}
	}
	addSpec(vc.Spec)
	// contracts of possible callees (static callees, closures, interface methods by name)
	seen := map[*ssa.Function]bool{}
	var visit func(f *ssa.Function, depth int)
	visit = func(f *ssa.Function, depth int) {
		if f == nil || seen[f] || depth > 4 {
			return
		}
		seen[f] = true
		for _, af := range f.AnonFuncs {
			visit(af, depth)
		}
		for _, b := range f.Blocks {
			for _, ins := range b.Instrs {
				ci, ok := ins.(ssa.CallInstruction)
				if !ok {
					continue
				}
				cc := ci.Common()
				if cc.IsInvoke() {
					suffix := "." + cc.Method.Name()
					for n, fs := range vc.Eng.Spec.Funcs {
						if strings.HasSuffix(strings.SplitN(n, "#", 2)[0], suffix) {
							addSpec(fs)
						}
					}
					continue
				}
				if callee := cc.StaticCallee(); callee != nil {
					n := FuncName(callee)
					if fs := vc.Eng.Spec.Funcs[n]; fs != nil {
						addSpec(fs)
					} else if callee.Blocks != nil {
						visit(callee, depth+1) // may be inlined
					}
				}
			}
		}
	}
	visit(vc.Fn, 0)
	for len(work) > 0 {
		id := work[len(work)-1]
		work = work[:len(work)-1]
		if pf := vc.Eng.Spec.Pures[id]; pf != nil {
			addText(pf.Text)
		}
	}
	return used
}

func minInt(a, b int) int {
	if a < b {
		return a
	}
	return b
}
