package vc

import (
	"fmt"
	"math/big"
	"os"
	"strconv"
	"strings"
	"unicode"
)

// ---------- contract file model ----------

type Clause struct {
	Kind string // requires, ensures, invariant, decreases, assigns, assert
	Text string
	Expr SExpr
	Line int
	File string
	Idx  int // ordinal of this kind within its owner
	Tag  string // stable name for generated clauses (overrides Idx in obligation names)
}

type LoopSpec struct {
	Ordinal    int
	Invariants []*Clause
	Decreases  *Clause
	Assigns    []*Clause
	HasAssign  bool
}

type FuncSpec struct {
	Name      string
	Requires  []*Clause
	Ensures   []*Clause
	Loops     map[int]*LoopSpec
	Assigns   []*Clause // nil => not declared
	HasAssign bool
	Preserves []*Clause // locations the function never modifies (negative frame; used when no assigns is declared)
	Guards    []*GuardClause // control-flow contracts decided on the CFG (frames back end)
	Orders    []*OrderClause // "order A before B": no A is reachable once a B has been executed
	Reads     []*ReadsClause // "reads_fields T except a,b": the function reads every other field of struct T
	FeedsOnly []*FeedsClause // "feeds_unchanged T into f, g": every field of T read here flows, unchanged, only into calls of f / g
	ReturnsFresh bool        // "returns_fresh": result 0 is always an object allocated by this call (or by a callee with the same clause), never one that existed before
	NoStoreThrough []string  // "no_store_through T [except f1, f2]": nothing reachable from here writes memory reached through a *T (shared, long-lived data)
	MapOrderIndependent bool // "map_order_independent": no floating-point accumulation across the iterations of a range-over-map loop, here and in everything reachable in the package
	DebugOnly []DebugOnlyClause // "debug_only T.f writes a, b": the flag only guards branches whose effects are confined to the named fields/variables
	ControlOnly []string     // "control_only T.f, T.g": those fields only ever decide branches, here and in everything reachable in the package
	Trusted   bool
	MayPanic  bool
	DeadReturns []int // "dead_return -k": the k-th return statement from the end (source order) is unreachable (proved, instead of the reachability cover)
	NoInline  bool
	Opaque    bool // callers see only contract even if small
	Flags     map[string]string
	Lets      []*Clause // Kind holds the bound name
	Foreach   []*Foreach
	Asserts   []*AssertSpec
	ParamNames []string // for interface-method contracts: names of the method's parameters
	PanicOK   []string  // anchors (substrings) of panic sites this contract allows
	Extends   string    // name of the contract whose clauses are inherited
	File      string
	Line      int
}

// Foreach is a postcondition generated per integer-kinded field of a struct
// type, so that a field added later without being handled fails.
type Foreach struct {
	Type     string
	Except   []string
	Template string
	Line     int
	File     string
}

type PureFunc struct {
	Name     string
	Params   []ParamDecl
	Result   string // type text
	Body     SExpr  // nil for abstract
	Abstract bool
	Reads    []string // heap sorts passed to an abstract function
	Text     string   // declaration text (relevance analysis of axioms)
	File     string
	Line     int
}

type ParamDecl struct {
	Name string
	Type string
}

// DebugOnlyClause: "debug_only T.f writes n1, n2": field T.f (a bool) only ever
// decides branches, and the code that runs only because of such a branch
// stores to nothing but fields / local variables with the listed names, calls
// nothing but formatting functions, and leaves the control flow alone.
type DebugOnlyClause struct {
	Field  string // "T.f"
	Writes []string
}

type Axiom struct {
	Name string
	Expr SExpr
	Text string
	File string
	Line int
	// State: a "state_axiom": a statement about objects in memory (written with
	// allocated(x)) that is assumed for the entry state, for the objects a
	// callee under contract allocated (in the state after that call), and for
	// the state at each return - not only once at entry. Meant for denotations
	// of immutable linked structures (a heap-independent abstract function tied
	// to the fields of the node it is applied to).
	State bool
}

// Lemma is a closed formula over spec functions and axioms that is proved on
// its own (no program): e.g. "the comparator is a strict weak order".
type Lemma struct {
	Name string
	Expr SExpr
	Text string
	File string
	Line int
}

// GuardClause: "guard <effect> by <g1> && <g2> ...": every path from the
// function's entry to an instruction matching <effect> (an anchor as in
// `assert at`) takes, for each gi, the edge on which gi holds. Guards:
// [!]field:<Name> (a bool field read), [!]call:<name> (a bool-returning call),
// [!]var:<name> (a bool parameter or variable), nilerr:<name> (the error
// result of a call to <name> was nil).
type GuardClause struct {
	Effect string
	Guards []string
	Text   string
	File   string
	Line   int
}

// OrderClause: "order <anchorA> before <anchorB>": on no path is an instruction
// matching A executed after one matching B (anchors as in `assert at`, with
// optional #k occurrence).
type OrderClause struct {
	A, B string
	Text string
	File string
	Line int
}

// ReadsClause: "reads_fields <Type> except f1, f2": the function reads every
// field of struct type <Type> (of its own package) that is not listed - one
// obligation per field, generated from the struct type on every run.
type ReadsClause struct {
	Type   string
	Except []string
	File   string
	Line   int
}

// FeedsClause: "feeds_unchanged <Type> into <call names>": each value loaded
// from a field of <Type> in this function is used only as (an interface-boxed,
// converted or variadic) argument of the listed calls - it is not copied,
// sorted, truncated or otherwise transformed on the way.
type FeedsClause struct {
	Type  string
	Into  []string
	File  string
	Line  int
}

type SpecFile struct {
	Alt    map[string][]*FuncSpec // further contracts for the same function name (each restricted by flag only_for)
	Lemmas map[string]*Lemma
	Funcs  map[string]*FuncSpec
	Pures  map[string]*PureFunc
	Axioms []*Axiom
	Ghosts map[string]*GhostVar
}

func NewSpecFile() *SpecFile {
	return &SpecFile{Funcs: map[string]*FuncSpec{}, Pures: map[string]*PureFunc{}}
}

var clauseKeywords = map[string]bool{"requires": true, "ensures": true, "invariant": true, "decreases": true,
	"assigns": true, "preserves": true, "guard": true, "order": true, "reads_fields": true, "control_only": true, "feeds_unchanged": true, "returns_fresh": true, "no_store_through": true, "loop": true, "may_panic": true, "dead_return": true, "state_axiom": true, "debug_only": true, "map_order_independent": true, "trusted": true, "pure": true, "abstract": true, "axiom": true,
	"func": true, "lemma": true, "noinline": true, "opaque": true, "flag": true, "let": true, "may_panic_at": true, "extends": true, "foreach_field": true, "ghost": true, "assert": true}

// ParseSpecFile reads //@ lines from path and adds them to sf.
func (sf *SpecFile) ParseSpecFile(path string) error {
	data, err := os.ReadFile(path)
	if err != nil {
		return err
	}
	type rawClause struct {
		kw   string
		text string
		line int
	}
	var raws []rawClause
	for i, ln := range strings.Split(string(data), "\n") {
		t := strings.TrimSpace(ln)
		if !strings.HasPrefix(t, "//@") {
			continue
		}
		t = strings.TrimSpace(t[3:])
		if t == "" || strings.HasPrefix(t, "#") {
			continue
		}
		// strip trailing comment introduced by " // "
		if j := strings.Index(t, " // "); j >= 0 {
			t = strings.TrimSpace(t[:j])
		}
		kw := t
		if j := strings.IndexAny(t, " \t:"); j >= 0 {
			kw = t[:j]
		}
		if clauseKeywords[kw] {
			raws = append(raws, rawClause{kw, strings.TrimSpace(t[len(kw):]), i + 1})
		} else if len(raws) > 0 {
			raws[len(raws)-1].text += " " + t
		} else {
			return fmt.Errorf("%s:%d: stray contract text %q", path, i+1, t)
		}
	}
	var cur *FuncSpec
	var curLoop *LoopSpec
	for _, r := range raws {
		loc := fmt.Sprintf("%s:%d", path, r.line)
		parse := func(kind string) (*Clause, error) {
			e, err := ParseSpecExpr(r.text)
			if err != nil {
				return nil, fmt.Errorf("%s: %v in %q", loc, err, r.text)
			}
			return &Clause{Kind: kind, Text: r.text, Expr: e, Line: r.line, File: path}, nil
		}
		switch r.kw {
		case "ghost":
			if strings.HasPrefix(strings.TrimSpace(r.text), "at ") {
				// ghost at <anchor>: name = expr   (ghost assignment at a program point)
				if cur == nil {
					return fmt.Errorf("%s: 'ghost at' outside func", loc)
				}
				gt := strings.TrimSpace(strings.TrimSpace(r.text)[3:])
				ci := strings.Index(gt, ": ")
				if ci < 0 {
					return fmt.Errorf("%s: 'ghost at <anchor>: name = expr' expected", loc)
				}
				anchor, body := strings.TrimSpace(gt[:ci]), gt[ci+2:]
				name, rhs, ok := strings.Cut(body, "=")
				if !ok || strings.HasPrefix(rhs, "=") {
					return fmt.Errorf("%s: 'ghost at <anchor>: name = expr' expected", loc)
				}
				e, err := ParseSpecExpr(rhs)
				if err != nil {
					return fmt.Errorf("%s: %v", loc, err)
				}
				a := &AssertSpec{Anchor: anchor, Update: strings.TrimSpace(name)}
				if j := strings.LastIndex(anchor, "#"); j > 0 {
					fmt.Sscanf(anchor[j+1:], "%d", &a.Occ)
					a.Anchor = anchor[:j]
				}
				a.C = &Clause{Kind: "ghost", Text: body, Expr: e, Line: r.line, File: path}
				curLoop = nil
				cur.Asserts = append(cur.Asserts, a)
				continue
			}
			fs := strings.Fields(r.text)
			if len(fs) < 3 || fs[0] != "var" {
				return fmt.Errorf("%s: expected 'ghost var name Type'", loc)
			}
			if sf.Ghosts == nil {
				sf.Ghosts = map[string]*GhostVar{}
			}
			sf.Ghosts[fs[1]] = &GhostVar{Name: fs[1], Type: strings.Join(fs[2:], " "), File: path, Line: r.line}
			cur, curLoop = nil, nil
		case "func":
			name := strings.TrimSpace(r.text)
			var pnames []string
			if i := strings.LastIndex(name, "("); i > 0 && strings.HasSuffix(name, ")") && strings.LastIndex(name, ".") < i {
				// trailing "(a, b)": parameter names for interface-method contracts
				for _, p := range strings.Split(name[i+1:len(name)-1], ",") {
					pnames = append(pnames, strings.TrimSpace(p))
				}
				name = strings.TrimSpace(name[:i])
			}
			cur = &FuncSpec{Name: name, Loops: map[int]*LoopSpec{}, File: path, Line: r.line, Flags: map[string]string{}, ParamNames: pnames}
			if _, dup := sf.Funcs[name]; dup {
				// several contracts for one (library) function are allowed when each
				// restricts itself with 'flag only_for=<prefix>' (checked by CheckAlternatives)
				if sf.Alt == nil {
					sf.Alt = map[string][]*FuncSpec{}
				}
				sf.Alt[name] = append(sf.Alt[name], cur)
			} else {
				sf.Funcs[name] = cur
			}
			curLoop = nil
		case "pure", "abstract":
			pf, err := parsePureDecl(r.kw, r.text)
			if err != nil {
				return fmt.Errorf("%s: %v", loc, err)
			}
			pf.File, pf.Line = path, r.line
			pf.Text = r.text
			sf.Pures[pf.Name] = pf
			cur, curLoop = nil, nil
		case "lemma":
			name, body, ok := strings.Cut(r.text, ":")
			if !ok || strings.ContainsAny(strings.TrimSpace(name), " (") {
				return fmt.Errorf("%s: expected 'lemma name: formula'", loc)
			}
			e, err := ParseSpecExpr(body)
			if err != nil {
				return fmt.Errorf("%s: %v", loc, err)
			}
			if sf.Lemmas == nil {
				sf.Lemmas = map[string]*Lemma{}
			}
			sf.Lemmas[strings.TrimSpace(name)] = &Lemma{Name: strings.TrimSpace(name), Expr: e, Text: body, File: path, Line: r.line}
			cur, curLoop = nil, nil
		case "axiom", "state_axiom":
			name, body, ok := strings.Cut(r.text, ":")
			if !ok || strings.ContainsAny(name, " (") {
				name, body = fmt.Sprintf("axiom%d", len(sf.Axioms)), r.text
			}
			e, err := ParseSpecExpr(body)
			if err != nil {
				return fmt.Errorf("%s: %v", loc, err)
			}
			sf.Axioms = append(sf.Axioms, &Axiom{Name: strings.TrimSpace(name), Expr: e, Text: body, File: path, Line: r.line, State: r.kw == "state_axiom"})
			cur, curLoop = nil, nil
		default:
			if cur == nil {
				return fmt.Errorf("%s: clause %s outside func", loc, r.kw)
			}
			switch r.kw {
			case "requires":
				c, err := parse("requires")
				if err != nil {
					return err
				}
				c.Idx = len(cur.Requires) + 1
				cur.Requires = append(cur.Requires, c)
			case "ensures":
				curLoop = nil // function-level clauses end the loop block
				c, err := parse("ensures")
				if err != nil {
					return err
				}
				c.Idx = len(cur.Ensures) + 1
				cur.Ensures = append(cur.Ensures, c)
			case "loop":
				n, err := strconv.Atoi(strings.TrimSuffix(strings.TrimSpace(r.text), ":"))
				if err != nil {
					return fmt.Errorf("%s: bad loop ordinal %q", loc, r.text)
				}
				curLoop = &LoopSpec{Ordinal: n}
				cur.Loops[n] = curLoop
			case "invariant":
				if curLoop == nil {
					return fmt.Errorf("%s: invariant outside loop", loc)
				}
				c, err := parse("invariant")
				if err != nil {
					return err
				}
				c.Idx = len(curLoop.Invariants) + 1
				curLoop.Invariants = append(curLoop.Invariants, c)
			case "decreases":
				if curLoop == nil {
					return fmt.Errorf("%s: decreases outside loop", loc)
				}
				c, err := parse("decreases")
				if err != nil {
					return err
				}
				curLoop.Decreases = c
			case "assigns":
				txt := strings.TrimSpace(r.text)
				var cs []*Clause
				if txt != "nothing" && txt != "" {
					for _, part := range splitTop(txt, ',') {
						e, err := ParseSpecExpr(part)
						if err != nil {
							return fmt.Errorf("%s: %v in %q", loc, err, part)
						}
						cs = append(cs, &Clause{Kind: "assigns", Text: part, Expr: e, Line: r.line, File: path})
					}
				}
				if curLoop != nil {
					curLoop.Assigns = append(curLoop.Assigns, cs...)
					curLoop.HasAssign = true
				} else {
					cur.Assigns = append(cur.Assigns, cs...)
					cur.HasAssign = true
				}
			case "no_store_through":
				cur.NoStoreThrough = append(cur.NoStoreThrough, strings.TrimSpace(r.text))
				curLoop = nil
			case "returns_fresh":
				cur.ReturnsFresh = true
				curLoop = nil
			case "feeds_unchanged":
				tn, into, ok := strings.Cut(strings.TrimSpace(r.text), " into ")
				if !ok {
					return fmt.Errorf("%s: expected 'feeds_unchanged <Type> into <call>, <call>'", loc)
				}
				fc := &FeedsClause{Type: strings.TrimSpace(tn), File: path, Line: r.line}
				for _, c := range strings.Split(into, ",") {
					if t := strings.TrimSpace(c); t != "" {
						fc.Into = append(fc.Into, t)
					}
				}
				curLoop = nil
				cur.FeedsOnly = append(cur.FeedsOnly, fc)
			case "map_order_independent":
				cur.MapOrderIndependent = true
				curLoop = nil
			case "debug_only":
				txt := strings.TrimSpace(r.text)
				fld, ws, ok := strings.Cut(txt, " writes ")
				if !ok {
					return fmt.Errorf("%s: debug_only needs 'T.f writes name, name'", loc)
				}
				dc := DebugOnlyClause{Field: strings.TrimSpace(fld)}
				for _, w := range strings.Split(ws, ",") {
					if w = strings.TrimSpace(w); w != "" {
						dc.Writes = append(dc.Writes, w)
					}
				}
				cur.DebugOnly = append(cur.DebugOnly, dc)
				curLoop = nil
			case "control_only":
				for _, part := range strings.Split(r.text, ",") {
					if t := strings.TrimSpace(part); t != "" {
						cur.ControlOnly = append(cur.ControlOnly, t)
					}
				}
				curLoop = nil
			case "reads_fields":
				fs := strings.Fields(strings.ReplaceAll(r.text, ",", " "))
				if len(fs) == 0 {
					return fmt.Errorf("%s: expected 'reads_fields <Type> [except f1, f2 ...]'", loc)
				}
				rc := &ReadsClause{Type: fs[0], File: path, Line: r.line}
				if len(fs) > 2 && fs[1] == "except" {
					rc.Except = fs[2:]
				}
				curLoop = nil
				cur.Reads = append(cur.Reads, rc)
			case "order":
				a, b, ok := strings.Cut(strings.TrimSpace(r.text), " before ")
				if !ok {
					return fmt.Errorf("%s: expected 'order <anchor> before <anchor>'", loc)
				}
				curLoop = nil
				cur.Orders = append(cur.Orders, &OrderClause{A: strings.TrimSpace(a), B: strings.TrimSpace(b), Text: r.text, File: path, Line: r.line})
			case "guard":
				eff, gs, ok := strings.Cut(strings.TrimSpace(r.text), " by ")
				if !ok {
					return fmt.Errorf("%s: expected 'guard <effect> by <guard> && ...'", loc)
				}
				gc := &GuardClause{Effect: strings.TrimSpace(eff), Text: r.text, File: path, Line: r.line}
				for _, g := range strings.Split(gs, "&&") {
					gc.Guards = append(gc.Guards, strings.TrimSpace(g))
				}
				curLoop = nil
				cur.Guards = append(cur.Guards, gc)
			case "preserves":
				for _, part := range splitTop(strings.TrimSpace(r.text), ',') {
					e, err := ParseSpecExpr(part)
					if err != nil {
						return fmt.Errorf("%s: %v in %q", loc, err, part)
					}
					cur.Preserves = append(cur.Preserves, &Clause{Kind: "preserves", Text: part, Expr: e, Line: r.line, File: path})
				}
				curLoop = nil
			case "may_panic":
				cur.MayPanic = true
			case "dead_return":
				k, err := strconv.Atoi(strings.TrimSpace(r.text))
				if err != nil || k >= 0 {
					return fmt.Errorf("%s: dead_return needs a negative ordinal (-1 = the last return statement in source order)", loc)
				}
				cur.DeadReturns = append(cur.DeadReturns, k)
			case "foreach_field":
				// foreach_field <Type> [except A,B] ensures <template with $f>
				txt := strings.TrimSpace(r.text)
				i := strings.Index(txt, " ensures ")
				if i < 0 {
					return fmt.Errorf("%s: foreach_field needs 'ensures <template>'", loc)
				}
				head, tmpl := strings.Fields(txt[:i]), strings.TrimSpace(txt[i+9:])
				fe := &Foreach{Type: head[0], Template: tmpl, Line: r.line, File: path}
				if len(head) >= 3 && head[1] == "except" {
					for _, e := range strings.Split(strings.Join(head[2:], ""), ",") {
						fe.Except = append(fe.Except, strings.TrimSpace(e))
					}
				}
				curLoop = nil
				cur.Foreach = append(cur.Foreach, fe)
			case "assert":
				a, err := parseAssert(r.text, path, r.line)
				if err != nil {
					return fmt.Errorf("%s: %v", loc, err)
				}
				curLoop = nil
				cur.Asserts = append(cur.Asserts, a)
			case "may_panic_at":
				cur.PanicOK = append(cur.PanicOK, strings.TrimSpace(r.text))
			case "extends":
				cur.Extends = strings.TrimSpace(r.text)
			case "trusted":
				cur.Trusted = true
			case "noinline":
				cur.NoInline = true
			case "opaque":
				cur.Opaque = true
			case "flag":
				k, v, _ := strings.Cut(strings.TrimSpace(r.text), "=")
				cur.Flags[strings.TrimSpace(k)] = strings.TrimSpace(v)
			case "let":
				k, v, ok := strings.Cut(r.text, "=")
				if !ok {
					return fmt.Errorf("%s: let needs 'name = expr'", loc)
				}
				e, err := ParseSpecExpr(v)
				if err != nil {
					return fmt.Errorf("%s: %v in %q", loc, err, v)
				}
				cur.Lets = append(cur.Lets, &Clause{Kind: strings.TrimSpace(k), Text: v, Expr: e, Line: r.line, File: path})
			}
		}
	}
	return nil
}

func splitTop(s string, sep byte) []string {
	var out []string
	depth := 0
	start := 0
	for i := 0; i < len(s); i++ {
		switch s[i] {
		case '(', '[':
			depth++
		case ')', ']':
			depth--
		default:
			if s[i] == sep && depth == 0 {
				out = append(out, strings.TrimSpace(s[start:i]))
				start = i + 1
			}
		}
	}
	out = append(out, strings.TrimSpace(s[start:]))
	return out
}

// parsePureDecl parses "func name(a T, b U) R = body" / "func name(a T) R reads Int,Slice".
func parsePureDecl(kw, text string) (*PureFunc, error) {
	text = strings.TrimSpace(text)
	if !strings.HasPrefix(text, "func ") {
		return nil, fmt.Errorf("expected 'func' after %s", kw)
	}
	text = strings.TrimSpace(text[5:])
	lp := strings.Index(text, "(")
	if lp < 0 {
		return nil, fmt.Errorf("missing ( in %q", text)
	}
	name := strings.TrimSpace(text[:lp])
	depth, rp := 0, -1
	for i := lp; i < len(text); i++ {
		if text[i] == '(' {
			depth++
		} else if text[i] == ')' {
			depth--
			if depth == 0 {
				rp = i
				break
			}
		}
	}
	if rp < 0 {
		return nil, fmt.Errorf("missing ) in %q", text)
	}
	pf := &PureFunc{Name: name, Abstract: kw == "abstract"}
	ptxt := strings.TrimSpace(text[lp+1 : rp])
	if ptxt != "" {
		parts := splitTop(ptxt, ',')
		// Go-style grouping "a, b int"
		pending := []string{}
		for _, p := range parts {
			f := strings.Fields(p)
			if len(f) == 1 {
				pending = append(pending, f[0])
				continue
			}
			typ := strings.TrimSpace(p[len(f[0]):])
			for _, n := range pending {
				pf.Params = append(pf.Params, ParamDecl{n, typ})
			}
			pending = nil
			pf.Params = append(pf.Params, ParamDecl{f[0], typ})
		}
		if len(pending) > 0 {
			return nil, fmt.Errorf("parameter without type in %q", ptxt)
		}
	}
	rest := strings.TrimSpace(text[rp+1:])
	if pf.Abstract {
		if i := strings.Index(rest, " reads "); i >= 0 {
			for _, s := range strings.Split(rest[i+7:], ",") {
				pf.Reads = append(pf.Reads, strings.TrimSpace(s))
			}
			rest = rest[:i]
		}
		pf.Result = strings.TrimSpace(rest)
		return pf, nil
	}
	res, body, ok := strings.Cut(rest, "=")
	if !ok {
		return nil, fmt.Errorf("pure func %s needs '= body'", name)
	}
	// careful: "==" in body; Cut splits at the first '=' which is the definition sign
	pf.Result = strings.TrimSpace(res)
	e, err := ParseSpecExpr(body)
	if err != nil {
		return nil, fmt.Errorf("pure func %s: %v", name, err)
	}
	pf.Body = e
	return pf, nil
}

// ---------- expression AST ----------

type SExpr interface{}

type (
	SIdent struct{ Name string }
	SInt   struct{ V string }
	SStr   struct{ V string }
	SBin   struct {
		Op   string
		L, R SExpr
	}
	SUn struct {
		Op string
		X  SExpr
	}
	SIndex struct{ X, I SExpr }
	SSlice struct{ X, Lo, Hi SExpr }
	SField struct {
		X    SExpr
		Name string
	}
	SCall struct {
		Fun  string
		Args []SExpr
	}
	SQuant struct {
		Forall bool
		Vars   []ParamDecl
		Body   SExpr
		Trig   []SExpr // explicit trigger terms, optional
	}
	SOld  struct{ X SExpr }
	SStar struct{} // the [*] wildcard in assigns
)

type tok struct {
	k string // ident int str op eof
	s string
}

func lexSpec(s string) ([]tok, error) {
	var out []tok
	i := 0
	for i < len(s) {
		c := s[i]
		switch {
		case c == ' ' || c == '\t':
			i++
		case unicode.IsLetter(rune(c)) || c == '_' || c == '$':
			j := i + 1
			for j < len(s) && (unicode.IsLetter(rune(s[j])) || unicode.IsDigit(rune(s[j])) || s[j] == '_' || s[j] == '$') {
				j++
			}
			out = append(out, tok{"ident", s[i:j]})
			i = j
		case c >= '0' && c <= '9':
			j := i + 1
			for j < len(s) && (unicode.IsDigit(rune(s[j])) || unicode.IsLetter(rune(s[j])) || s[j] == '_') {
				j++
			}
			txt := strings.ReplaceAll(s[i:j], "_", "")
			v, ok := new(big.Int).SetString(txt, 0)
			if !ok {
				return nil, fmt.Errorf("bad integer %q", s[i:j])
			}
			out = append(out, tok{"int", v.String()})
			i = j
		case c == '\'':
			j := i + 1
			for j < len(s) && s[j] != '\'' {
				if s[j] == '\\' {
					j++
				}
				j++
			}
			if j >= len(s) {
				return nil, fmt.Errorf("unterminated char literal")
			}
			r, _, _, err := strconv.UnquoteChar(s[i+1:j], '\'')
			if err != nil {
				return nil, fmt.Errorf("bad char literal %q", s[i:j+1])
			}
			out = append(out, tok{"int", strconv.Itoa(int(r))})
			i = j + 1
		case c == '"':
			j := i + 1
			for j < len(s) && s[j] != '"' {
				if s[j] == '\\' {
					j++
				}
				j++
			}
			if j >= len(s) {
				return nil, fmt.Errorf("unterminated string literal")
			}
			v, err := strconv.Unquote(s[i : j+1])
			if err != nil {
				return nil, err
			}
			out = append(out, tok{"str", v})
			i = j + 1
		default:
			ops := []string{"<==>", "==>", "::", "&&", "||", "==", "!=", "<=", ">=", "<<", ">>", "<", ">", "+", "-", "*", "/", "%", "!", "(", ")", "[", "]", ".", ",", ":", "&", "|", "^", "{", "}"}
			matched := false
			for _, op := range ops {
				if strings.HasPrefix(s[i:], op) {
					out = append(out, tok{"op", op})
					i += len(op)
					matched = true
					break
				}
			}
			if !matched {
				return nil, fmt.Errorf("unexpected character %q", string(c))
			}
		}
	}
	out = append(out, tok{"eof", ""})
	return out, nil
}

type sparser struct {
	toks []tok
	p    int
}

func ParseSpecExpr(s string) (SExpr, error) {
	toks, err := lexSpec(s)
	if err != nil {
		return nil, err
	}
	ps := &sparser{toks: toks}
	e, err := ps.parseIff()
	if err != nil {
		return nil, err
	}
	if ps.peek().k != "eof" {
		return nil, fmt.Errorf("unexpected token %q", ps.peek().s)
	}
	return e, nil
}

func (p *sparser) peek() tok { return p.toks[p.p] }
func (p *sparser) next() tok { t := p.toks[p.p]; p.p++; return t }
func (p *sparser) isOp(s string) bool {
	t := p.peek()
	return t.k == "op" && t.s == s
}
func (p *sparser) expect(s string) error {
	if !p.isOp(s) {
		return fmt.Errorf("expected %q, found %q", s, p.peek().s)
	}
	p.p++
	return nil
}

func (p *sparser) parseIff() (SExpr, error) {
	l, err := p.parseImp()
	if err != nil {
		return nil, err
	}
	for p.isOp("<==>") {
		p.p++
		r, err := p.parseImp()
		if err != nil {
			return nil, err
		}
		l = &SBin{"<==>", l, r}
	}
	return l, nil
}

func (p *sparser) parseImp() (SExpr, error) {
	l, err := p.parseOr()
	if err != nil {
		return nil, err
	}
	if p.isOp("==>") {
		p.p++
		r, err := p.parseImp()
		if err != nil {
			return nil, err
		}
		return &SBin{"==>", l, r}, nil
	}
	return l, nil
}

func (p *sparser) parseOr() (SExpr, error) {
	l, err := p.parseAnd()
	if err != nil {
		return nil, err
	}
	for p.isOp("||") {
		p.p++
		r, err := p.parseAnd()
		if err != nil {
			return nil, err
		}
		l = &SBin{"||", l, r}
	}
	return l, nil
}

func (p *sparser) parseAnd() (SExpr, error) {
	l, err := p.parseCmp()
	if err != nil {
		return nil, err
	}
	for p.isOp("&&") {
		p.p++
		r, err := p.parseCmp()
		if err != nil {
			return nil, err
		}
		l = &SBin{"&&", l, r}
	}
	return l, nil
}

func (p *sparser) parseCmp() (SExpr, error) {
	l, err := p.parseAdd()
	if err != nil {
		return nil, err
	}
	for {
		t := p.peek()
		if t.k == "op" && (t.s == "==" || t.s == "!=" || t.s == "<" || t.s == "<=" || t.s == ">" || t.s == ">=") {
			p.p++
			r, err := p.parseAdd()
			if err != nil {
				return nil, err
			}
			l = &SBin{t.s, l, r}
			continue
		}
		return l, nil
	}
}

func (p *sparser) parseAdd() (SExpr, error) {
	l, err := p.parseMul()
	if err != nil {
		return nil, err
	}
	for {
		t := p.peek()
		if t.k == "op" && (t.s == "+" || t.s == "-" || t.s == "|" || t.s == "^") {
			p.p++
			r, err := p.parseMul()
			if err != nil {
				return nil, err
			}
			l = &SBin{t.s, l, r}
			continue
		}
		return l, nil
	}
}

func (p *sparser) parseMul() (SExpr, error) {
	l, err := p.parseUnary()
	if err != nil {
		return nil, err
	}
	for {
		t := p.peek()
		if t.k == "op" && (t.s == "*" || t.s == "/" || t.s == "%" || t.s == "&" || t.s == "<<" || t.s == ">>") {
			p.p++
			r, err := p.parseUnary()
			if err != nil {
				return nil, err
			}
			l = &SBin{t.s, l, r}
			continue
		}
		return l, nil
	}
}

func (p *sparser) parseUnary() (SExpr, error) {
	if p.isOp("!") || p.isOp("-") {
		op := p.next().s
		x, err := p.parseUnary()
		if err != nil {
			return nil, err
		}
		return &SUn{op, x}, nil
	}
	return p.parsePostfix()
}

func (p *sparser) parsePostfix() (SExpr, error) {
	x, err := p.parsePrimary()
	if err != nil {
		return nil, err
	}
	for {
		switch {
		case p.isOp("."):
			p.p++
			t := p.next()
			if t.k != "ident" {
				return nil, fmt.Errorf("expected field name after '.'")
			}
			if id, ok := x.(*SIdent); ok && p.isOp("(") && id.Name != "" && isPkgQualifier(id.Name) {
				// pkg.Func(...) spec call
				p.p++
				args, err := p.parseArgs()
				if err != nil {
					return nil, err
				}
				x = &SCall{Fun: id.Name + "." + t.s, Args: args}
				continue
			}
			x = &SField{x, t.s}
		case p.isOp("["):
			p.p++
			if p.isOp("*") && p.toks[p.p+1].k == "op" && p.toks[p.p+1].s == "]" {
				p.p += 2
				x = &SIndex{x, &SStar{}}
				continue
			}
			var lo SExpr
			if !p.isOp(":") {
				lo, err = p.parseIff()
				if err != nil {
					return nil, err
				}
			}
			if p.isOp(":") {
				p.p++
				var hi SExpr
				if !p.isOp("]") {
					hi, err = p.parseIff()
					if err != nil {
						return nil, err
					}
				}
				if err := p.expect("]"); err != nil {
					return nil, err
				}
				x = &SSlice{x, lo, hi}
			} else {
				if err := p.expect("]"); err != nil {
					return nil, err
				}
				x = &SIndex{x, lo}
			}
		default:
			return x, nil
		}
	}
}

func isPkgQualifier(string) bool { return false }

func (p *sparser) parseArgs() ([]SExpr, error) {
	var args []SExpr
	if p.isOp(")") {
		p.p++
		return args, nil
	}
	for {
		a, err := p.parseIff()
		if err != nil {
			return nil, err
		}
		args = append(args, a)
		if p.isOp(",") {
			p.p++
			continue
		}
		if err := p.expect(")"); err != nil {
			return nil, err
		}
		return args, nil
	}
}

func (p *sparser) parsePrimary() (SExpr, error) {
	t := p.next()
	switch t.k {
	case "int":
		return &SInt{t.s}, nil
	case "str":
		return &SStr{t.s}, nil
	case "ident":
		switch t.s {
		case "forall", "exists":
			var vars []ParamDecl
			var pending []string
			for {
				n := p.next()
				if n.k != "ident" {
					return nil, fmt.Errorf("expected bound variable name")
				}
				if p.isOp(",") {
					p.p++
					pending = append(pending, n.s)
					continue
				}
				// a type: tokens up to the next ',' or '::' (e.g. []zoekt.LineMatch, *T)
				var tyText string
				for !(p.isOp(",") || p.isOp("::") || p.peek().k == "eof") {
					tyText += p.next().s
				}
				if tyText == "" {
					return nil, fmt.Errorf("expected type of bound variable %s", n.s)
				}
				ty := tok{"ident", tyText}
				for _, pn := range pending {
					vars = append(vars, ParamDecl{pn, ty.s})
				}
				pending = nil
				vars = append(vars, ParamDecl{n.s, ty.s})
				if p.isOp(",") {
					p.p++
					continue
				}
				break
			}
			if err := p.expect("::"); err != nil {
				return nil, err
			}
			// optional explicit trigger: {e1, e2, ...} (a multi-pattern)
			var trig []SExpr
			if p.isOp("{") {
				p.p++
				for {
					e, err := p.parseIff()
					if err != nil {
						return nil, err
					}
					trig = append(trig, e)
					if p.isOp(",") {
						p.p++
						continue
					}
					if err := p.expect("}"); err != nil {
						return nil, err
					}
					break
				}
			}
			body, err := p.parseIff()
			if err != nil {
				return nil, err
			}
			return &SQuant{t.s == "forall", vars, body, trig}, nil
		case "old":
			if err := p.expect("("); err != nil {
				return nil, err
			}
			x, err := p.parseIff()
			if err != nil {
				return nil, err
			}
			if err := p.expect(")"); err != nil {
				return nil, err
			}
			return &SOld{x}, nil
		}
		if p.isOp("(") {
			p.p++
			args, err := p.parseArgs()
			if err != nil {
				return nil, err
			}
			return &SCall{Fun: t.s, Args: args}, nil
		}
		return &SIdent{t.s}, nil
	case "op":
		if t.s == "(" {
			x, err := p.parseIff()
			if err != nil {
				return nil, err
			}
			if err := p.expect(")"); err != nil {
				return nil, err
			}
			return x, nil
		}
	}
	return nil, fmt.Errorf("unexpected token %q", t.s)
}

// CheckAlternatives: a function may have several contracts only if all of them
// but at most one are restricted to the verification of particular functions
// (only_for); the unrestricted one - the contract the function itself is
// verified against - becomes the primary contract.
func (sf *SpecFile) CheckAlternatives() error {
	for name, alts := range sf.Alt {
		all := append([]*FuncSpec{sf.Funcs[name]}, alts...)
		var open *FuncSpec
		var restricted []*FuncSpec
		for _, a := range all {
			if a.Flags["only_for"] == "" {
				if open != nil {
					return fmt.Errorf("%s:%d: duplicate contract for %s (several contracts for one function need 'flag only_for=...' on all but one)", a.File, a.Line, name)
				}
				open = a
			} else {
				restricted = append(restricted, a)
			}
		}
		if open != nil {
			sf.Funcs[name] = open
			sf.Alt[name] = restricted
		}
	}
	return nil
}
