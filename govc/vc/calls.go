package vc

import (
	"regexp"
	"path/filepath"
	"fmt"
	"go/types"
	"sort"
	"strings"

	"golang.org/x/tools/go/ssa"
)

const maxInlineDepth = 6
const maxInlineInstrs = 400

func (f *frame) execCall(x *ssa.Call, in string, st *State) {
	vc := f.vc
	cc := x.Common()
	var args []Val
	for _, a := range cc.Args {
		args = append(args, f.val(a))
	}
	setResult := func(v Val) { f.vals[x] = v }
	// builtins
	if b, ok := cc.Value.(*ssa.Builtin); ok {
		f.execBuiltin(x, b.Name(), args, in, st)
		return
	}
	if cc.IsInvoke() {
		// interface method call
		recv := f.val(cc.Value)
		vc.obligeIn(f, "nil", "invoke:"+cc.Method.Name()+":"+vc.anchorAt(f.fn, x.Pos(), "call"), in, Not(Eq(App("if.tag", recv.T), "0")), x.Pos(), "method call on possibly nil interface")
		if f.ifaceSpecCall(x, recv, args, in, st) {
			return
		}
		if r, ok := f.ifaceContractCall(x, recv, args, in, st); ok {
			setResult(r)
			return
		}
		if vc.isPureExternal("(" + cc.Value.Type().String() + ")." + cc.Method.Name()) {
			vc.note("interface call (%s).%s treated as pure with unconstrained result", cc.Value.Type(), cc.Method.Name())
			setResult(f.freshVal(x.Name(), x.Type(), in, st))
			return
		}
		vc.note("interface call %s.%s in %s: havoc (no interface contract)", cc.Value.Type(), cc.Method.Name(), FuncName(f.fn))
		f.havocAllPreservingLocals(st, in, "interface call")
		setResult(f.freshVal(x.Name(), x.Type(), in, st))
		return
	}
	var callee *ssa.Function
	var bindings []Val
	switch v := cc.Value.(type) {
	case *ssa.Function:
		callee = v
	case *ssa.MakeClosure:
		callee = v.Fn.(*ssa.Function)
		for _, b := range v.Bindings {
			bindings = append(bindings, f.val(b))
		}
	default:
		cv := f.val(cc.Value)
		if cv.Clo != nil {
			callee = cv.Clo.Fn.(*ssa.Function)
			bindings = cv.Clo.Bindings
		}
	}
	if callee == nil {
		if cands := funcCandidates(cc.Value, map[ssa.Value]bool{}); len(cands) > 0 {
			// the callee is one of finitely many known functions: case split
			fv := f.val(cc.Value)
			var guards []string
			var states []*State
			var results []Val
			for _, c := range cands {
				g := And(in, Eq(fv.T, vc.funcLoc(c)))
				cs := st.Clone()
				r := f.callFunction(c, nil, args, cc.Args, g, cs, x)
				guards = append(guards, g)
				states = append(states, cs)
				results = append(results, r)
			}
			vc.assume(in, Or(guards...))
			f.mergeInto(st, guards, states)
			setResult(f.mergeVals(x.Name(), x.Type(), guards, results))
			return
		}
		vc.obligeIn(f, "nil", "callfn:"+vc.anchorAt(f.fn, x.Pos(), "call"), in, Not(Eq(f.val(cc.Value).T, "Null")), x.Pos(), "call of possibly nil func value")
		if r, ok := f.funcFieldContractCall(x, args, in, st); ok {
			setResult(r)
			return
		}
		vc.note("dynamic call of func value in %s: havoc", FuncName(f.fn))
		f.havocAllPreservingLocals(st, in, "dynamic call")
		setResult(f.freshVal(x.Name(), x.Type(), in, st))
		return
	}
	res := f.callFunction(callee, bindings, args, cc.Args, in, st, x)
	setResult(res)
}

// callFunction dispatches a static call: stdspec, contract, inline, or havoc.
func (f *frame) callFunction(callee *ssa.Function, bindings, args []Val, argVals []ssa.Value, in string, st *State, site ssa.Instruction) Val {
	vc := f.vc
	name := FuncName(callee)
	full := callee.RelString(nil)
	if o := callee.Origin(); o != nil {
		full = o.RelString(nil)
	}
	var rtype types.Type = callee.Signature.Results()
	if callee.Signature.Results().Len() == 1 {
		rtype = callee.Signature.Results().At(0).Type()
	}
	if h, ok := stdSpecs[full]; ok {
		// a contract written next to the function under verification (same
		// package directory) takes precedence over the built-in model - this is
		// how a package attaches lock invariants to sync.Mutex operations
		if spec := vc.calleeSpec(name); spec != nil && len(bindings) == 0 && vc.specIsLocal(spec) {
			return f.contractCall(callee, spec, args, in, st, site)
		}
		if v, handled := h(f, callee, args, in, st, site); handled {
			return v
		}
	}
	if spec := vc.calleeSpec(name); spec != nil && len(bindings) == 0 {
		return f.contractCall(callee, spec, args, in, st, site)
	}
	if spec := vc.Eng.Spec.Funcs[name]; spec != nil && len(bindings) > 0 && len(bindings) == len(callee.FreeVars) {
		// a closure under contract: its free variables are the captured cells
		f.closureBindings = bindings
		defer func() { f.closureBindings = nil }()
		return f.contractCall(callee, spec, args, in, st, site)
	}
	if vc.isPureExternal(full) {
		vc.note("call to %s treated as pure with unconstrained result", full)
		return f.freshVal(callName(site), rtype, in, st)
	}
	// only code of the repository itself (and closures) is inlined; library
	// code without a stdspec is abstracted
	if callee.Blocks != nil && f.depth < maxInlineDepth && inlinable(callee) && (inRepo(callee) || len(bindings) > 0) {
		return f.inlineCall(callee, bindings, args, in, st, site)
	}
	vc.note("call to %s in %s: havoc of all heaps (no contract, not inlinable)", name, FuncName(f.fn))
	f.havocAllPreservingLocals(st, in, "call "+name)
	return f.freshVal(callName(site), rtype, in, st)
}

func callName(site ssa.Instruction) string {
	if v, ok := site.(ssa.Value); ok {
		return v.Name()
	}
	return "call"
}

func inlinable(fn *ssa.Function) bool {
	n := 0
	for _, b := range fn.Blocks {
		n += len(b.Instrs)
		for _, s := range b.Succs {
			if s.Dominates(b) {
				return false // has a loop
			}
		}
	}
	if fn.Recover != nil {
		return false
	}
	return n <= maxInlineInstrs
}

var pureExternalPrefixes = []string{"fmt.Sprintf", "fmt.Errorf", "fmt.Sprint", "errors.New", "log.Printf", "log.Println", "log.Print",
	"(*log.Logger).Printf", "(*log.Logger).Println", "strconv.", "time.Now", "time.Since", "(time.Time).", "(time.Duration).", "fmt.Fprintf", "fmt.Printf", "fmt.Println",
	"strings.", "unicode.", "unicode/utf8.", "path.", "path/filepath.Base", "path/filepath.Join", "path/filepath.Ext", "path/filepath.Dir", "path/filepath.Clean",
	"math.", "math/bits.", "errors.Is", "errors.As", "os.IsNotExist", "(*errors.errorString).Error", "hash/crc64.Checksum", "bytes.Equal", "bytes.Contains", "bytes.HasPrefix", "bytes.HasSuffix", "bytes.Count",
	"github.com/sourcegraph/zoekt/internal/debug", "regexp/syntax.", "(*regexp/syntax.Regexp).String", "sync/atomic.", "(*sync/atomic.",
	"(*github.com/prometheus/client_golang", "(github.com/prometheus/client_golang", "github.com/prometheus/client_golang",
	"(*go.uber.org/atomic.", "github.com/sourcegraph/log.", "(github.com/sourcegraph/log.", "(*github.com/sourcegraph/log.",
	"github.com/sourcegraph/zoekt/internal/tenant/internal/enforcement.", "github.com/sourcegraph/zoekt/internal/tenant/internal/tenanttype.",
	"(context.Context).", "context.", "(*context.", "go.opentelemetry.io", "(go.opentelemetry.io", "github.com/sourcegraph/zoekt/internal/trace", "(*github.com/sourcegraph/zoekt/internal/trace", "(github.com/sourcegraph/zoekt/internal/trace",
}

// isPureExternal: library functions whose effect on the modelled heaps is nil
// (they do not write memory reachable from zoekt's data structures). Their
// results are unconstrained. The list is part of the trusted base.
func (vc *VC) isPureExternal(full string) bool {
	for _, p := range pureExternalPrefixes {
		if strings.HasPrefix(full, p) {
			return true
		}
	}
	return false
}

// inlineCall executes the callee body in place.
func (f *frame) inlineCall(callee *ssa.Function, bindings, args []Val, in string, st *State, site ssa.Instruction) Val {
	vc := f.vc
	if f.inDeclLoop(site.Block()) && writesMemory(callee) {
		vc.unsupported("inlined callee %s writes memory inside a loop with a declared assigns frame (give it a contract)", FuncName(callee))
	}
	cf := vc.newFrame(callee, nil, false, in, f.depth+1)
	for i, p := range callee.Params {
		if i < len(args) {
			a := args[i]
			a.Typ = p.Type()
			cf.vals[p] = a
		}
	}
	for i, fv := range callee.FreeVars {
		if i < len(bindings) {
			cf.vals[fv] = bindings[i]
		}
	}
	cf.run(st)
	return cf.mergeReturns(st, in, callName(site))
}

// mergeReturns joins the callee's return points into the caller's state.
func (cf *frame) mergeReturns(st *State, in, hint string) Val {
	vc := cf.vc
	callee := cf.fn
	nres := callee.Signature.Results().Len()
	var rtype types.Type = callee.Signature.Results()
	if nres == 1 {
		rtype = callee.Signature.Results().At(0).Type()
	}
	if len(cf.rets) == 0 {
		// callee never returns (always panics)
		vc.assume(in, "false")
		return cf.freshVal(hint, rtype, in, st)
	}
	if len(cf.rets) == 1 {
		r := cf.rets[0]
		*st = *r.st.Clone()
		// paths that do not reach the return (panics) are cut: after the call, the return guard holds
		vc.assume(in, r.guard)
		switch nres {
		case 0:
			return Val{Typ: rtype}
		case 1:
			return r.vals[0]
		}
		return Val{Typ: rtype, Tuple: r.vals}
	}
	var gs []string
	for _, r := range cf.rets {
		gs = append(gs, r.guard)
	}
	vc.assume(in, Or(gs...))
	for _, srt := range vc.allHeaps() {
		same := true
		for _, r := range cf.rets[1:] {
			if r.st.H[srt] != cf.rets[0].st.H[srt] {
				same = false
			}
		}
		if same {
			st.H[srt] = cf.rets[0].st.H[srt]
			continue
		}
		h := vc.fresh(cf.prefix+"H"+srt+"_ret", vc.heapSort(srt))
		for _, r := range cf.rets {
			vc.assume(r.guard, Eq(h, r.st.H[srt]))
		}
		st.H[srt] = h
	}
	tp := vc.fresh(cf.prefix+"top_ret", "Int")
	for _, r := range cf.rets {
		vc.assume(r.guard, Eq(tp, r.st.Top))
	}
	st.Top = tp
	mk := func(i int, t types.Type) Val {
		srt := vc.sorts.SortOf(t)
		n := vc.fresh(cf.prefix+hint+fmt.Sprintf("_r%d", i), srt)
		for _, r := range cf.rets {
			vc.assume(r.guard, Eq(n, r.vals[i].T))
		}
		return Val{T: n, Typ: t}
	}
	switch nres {
	case 0:
		return Val{Typ: rtype}
	case 1:
		return mk(0, rtype)
	}
	v := Val{Typ: rtype}
	for i := 0; i < nres; i++ {
		v.Tuple = append(v.Tuple, mk(i, callee.Signature.Results().At(i).Type()))
	}
	return v
}

// contractCall applies the callee's contract at a call site.
func (f *frame) contractCall(callee *ssa.Function, spec *FuncSpec, args []Val, in string, st *State, site ssa.Instruction) Val {
	vc := f.vc
	name := FuncName(callee)
	if spec.Trusted {
		vc.note("uses TRUSTED (assumed, unverified) contract of %s", name)
	}
	pre := st.Clone()
	env := vc.calleeEnv(callee, args, pre, pre)
	env.specFile = spec.File
	bindings := f.closureBindings
	for i, fv := range callee.FreeVars {
		if i < len(bindings) {
			env.vars["&"+fv.Name()] = bindings[i]
		}
	}
	for _, l := range spec.Lets {
		env.vars[l.Kind] = vc.evalSpec(env, l.Expr)
	}
	for _, c := range spec.Requires {
		t := vc.evalSpec(env, c.Expr)
		vc.obligeIn(f, "call-requires", fmt.Sprintf("%s.%d", name, c.Idx), in, t.T, site.Pos(), "precondition of "+name+": "+c.Text)
	}
	if !spec.Trusted {
		f.checkCallbackContracts(callee, site, in)
	}
	// frame
	if spec.HasAssign {
		pats := vc.assignPats(env, spec.Assigns)
		if len(f.declFrames) > 0 && len(pats) > 0 {
			f.checkCallFrame(site.Block(), pats, pre.Top, in, site.Pos(), "call:"+name)
		}
		for _, srt := range vc.allHeaps() {
			if !patsTouch(pats, srt) {
				continue
			}
			h := vc.fresh(f.prefix+"H"+srt+"_call", vc.heapSort(srt))
			if ax := frameAxiom(srt, h, pre.H[srt], pre.Top, pats); ax != "" {
				vc.assert(ax)
			}
			st.H[srt] = h
		}
		tp := vc.fresh(f.prefix+"top_call", "Int")
		vc.assert(App(">=", tp, pre.Top))
		st.Top = tp
		if pats == nil {
			pats = []modPat{} // 'assigns nothing': no heap was havocked, nothing to re-assume
		}
		vc.assertHeapWF(st, pats)
	} else {
		vc.note("contract of %s has no assigns clause: caller %s havocs all heaps", name, FuncName(f.fn))
		f.havocAllPreservingLocals(st, in, "call "+name)
		f.assumePreserved(spec, env, pre, st)
	}
	var rtype types.Type = callee.Signature.Results()
	if callee.Signature.Results().Len() == 1 {
		rtype = callee.Signature.Results().At(0).Type()
	}
	res := f.freshVal(callName(site), rtype, in, st)
	post := vc.calleeEnv(callee, args, st, pre)
	post.specFile = spec.File
	for i, fv := range callee.FreeVars {
		if i < len(bindings) {
			post.vars["&"+fv.Name()] = bindings[i]
		}
	}
	for k, v := range env.vars {
		if _, ok := post.vars[k]; !ok {
			post.vars[k] = v
		}
	}
	post.setResults(callee, res)
	for _, c := range vc.expandForeach(spec, post) {
		t := vc.evalSpec(post, c.Expr)
		vc.assume(in, t.T)
	}
	if len(vc.stateAxioms) > 0 && !spec.Trusted {
		// the objects this call allocated are complete now
		vc.assumeStateAxioms(f.fn, st, pre.Top, in)
	}
	return res
}

// havocAllPreservingLocals forgets all heaps except cells rooted at
// non-escaping local allocations of the active frames.
func (f *frame) havocAllPreservingLocals(st *State, in, why string) {
	vc := f.vc
	if f.curBlock != nil && f.inDeclLoop(f.curBlock) {
		// a havoc of all memory inside a loop whose frame was declared would
		// silently exceed that frame: the loop cannot be decided this way
		vc.unsupported("spec: %s inside a loop with a declared assigns frame havocs all memory (give the callee a frame, or drop the loop-level assigns)", why)
	}
	pre := st.Clone()
	var keep []string
	for fr := f; fr != nil; fr = nil {
		for v, val := range fr.vals {
			if a, ok := v.(*ssa.Alloc); ok && !escapes(a) {
				keep = append(keep, val.T)
			}
		}
	}
	sort.Strings(keep)
	for _, srt := range vc.allHeaps() {
		h := vc.fresh(f.prefix+"H"+srt+"_havoc", vc.heapSort(srt))
		// ghost cells (negative root ids) are beyond the reach of program code
		cs := []string{App("<", App("rt", "l!"), "(- 1)")}
		for _, k := range keep {
			cs = append(cs, Eq(App("rt", "l!"), App("rt", k)))
		}
		vc.assert(fmt.Sprintf("(forall ((l! Loc)) (! (=> %s (= (select %s l!) (select %s l!))) :pattern ((select %s l!))))", Or(cs...), h, pre.H[srt], h))
		st.H[srt] = h
	}
	tp := vc.fresh(f.prefix+"top_havoc", "Int")
	vc.assert(App(">=", tp, pre.Top))
	st.Top = tp
	vc.assertHeapWF(st, nil)
}

// escapes reports whether the address of a may be observed by code outside
// the straight-line accesses of its own function.
func escapes(a *ssa.Alloc) bool {
	seen := map[ssa.Value]bool{}
	var rec func(v ssa.Value) bool
	rec = func(v ssa.Value) bool {
		if seen[v] {
			return false
		}
		seen[v] = true
		refs := v.Referrers()
		if refs == nil {
			return true
		}
		for _, r := range *refs {
			switch u := r.(type) {
			case *ssa.DebugRef:
			case *ssa.UnOp:
			case *ssa.Store:
				if u.Val == v {
					return true
				}
			case *ssa.FieldAddr:
				if rec(u) {
					return true
				}
			case *ssa.IndexAddr:
				if rec(u) {
					return true
				}
			case *ssa.MakeClosure:
				// captured by a closure that is only deferred or called directly by
				// this function (never stored, passed on or returned): the cell is
				// reachable from this function's own code only, provided the closure
				// body does not leak it either
				if closureLeaks(u) {
					return true
				}
			default:
				return true
			}
		}
		return false
	}
	return rec(a)
}

// closureLeaks: is the closure value used for anything but `defer c()` / `c()`
// in the function that creates it, or does its body let a captured cell escape?
func closureLeaks(mc *ssa.MakeClosure) bool {
	refs := mc.Referrers()
	if refs == nil {
		return true
	}
	for _, r := range *refs {
		switch u := r.(type) {
		case *ssa.DebugRef:
		case *ssa.Defer:
			if u.Call.Value != mc {
				return true
			}
		case *ssa.Call:
			if u.Call.Value != mc {
				return true
			}
		default:
			return true
		}
	}
	fn, ok := mc.Fn.(*ssa.Function)
	if !ok {
		return true
	}
	// inside the closure the captured cells may only be loaded from / stored to
	for _, fv := range fn.FreeVars {
		frefs := fv.Referrers()
		if frefs == nil {
			continue
		}
		for _, r := range *frefs {
			switch u := r.(type) {
			case *ssa.DebugRef:
			case *ssa.UnOp:
			case *ssa.Store:
				if u.Val == ssa.Value(fv) {
					return true
				}
			case *ssa.FieldAddr, *ssa.IndexAddr:
				// address of a part of the captured variable: conservatively a leak
				return true
			default:
				return true
			}
		}
	}
	return false
}

// ---- builtins ----

func (f *frame) execBuiltin(x *ssa.Call, name string, args []Val, in string, st *State) {
	vc := f.vc
	switch name {
	case "len":
		switch vc.sorts.SortOf(args[0].Typ) {
		case "Slice":
			f.name(x, App("sl.len", args[0].T))
		case "Str":
			f.name(x, App("str.len_", args[0].T))
		case "Loc":
			if _, ok := args[0].Typ.Underlying().(*types.Map); ok {
				f.name(x, vc.mapLen(st, args[0]))
				return
			}
			f.vals[x] = f.freshVal(x.Name(), x.Type(), in, st)
			vc.assume(in, App(">=", f.vals[x].T, "0"))
		default:
			if a, ok := args[0].Typ.Underlying().(*types.Array); ok {
				f.set(x, fmt.Sprint(a.Len()))
				return
			}
			vc.unsupported("len of %s", args[0].Typ)
		}
	case "cap":
		f.name(x, App("sl.cap", args[0].T))
	case "append":
		f.execAppend(x, args, in, st)
	case "copy":
		f.execCopy(x, args, in, st)
	case "min", "max":
		op := "<="
		if name == "max" {
			op = ">="
		}
		acc := args[0].T
		for _, a := range args[1:] {
			acc = Ite(App(op, acc, a.T), acc, a.T)
		}
		f.name(x, acc)
	case "delete":
		f.execMapDelete(args, in, st)
	case "print", "println":
	case "clear":
		vc.unsupported("builtin clear")
	default:
		vc.unsupported("builtin %s", name)
		if x.Type() != nil {
			f.vals[x] = f.freshVal(x.Name(), x.Type(), in, st)
		}
	}
}

// execAppend models append(s, t...) exactly: in place when capacity suffices,
// otherwise a fresh backing array holding a copy.
func (f *frame) execAppend(x *ssa.Call, args []Val, in string, st *State) {
	vc := f.vc
	s, t := args[0], args[1]
	et := x.Type().Underlying().(*types.Slice).Elem()
	var tlen string
	var tIsStr bool
	if vc.sorts.SortOf(t.Typ) == "Str" {
		tlen = App("str.len_", t.T)
		tIsStr = true
	} else {
		tlen = App("sl.len", t.T)
	}
	slen := App("sl.len", s.T)
	newLen := vc.define(f.prefix+x.Name()+"_len", "Int", App("+", slen, tlen))
	fits := vc.define(f.prefix+x.Name()+"_fits", "Bool", App("<=", newLen, App("sl.cap", s.T)))
	fresh := f.alloc(x.Name(), in, st)
	newCap := vc.fresh(f.prefix+x.Name()+"_cap", "Int")
	vc.assert(App(">=", newCap, newLen))
	// appending nothing to a slice returns it unchanged (also for nil)
	rFresh := vc.define(f.prefix+x.Name()+"_fr", "Slice", App("mk-slice", fresh, "0", newLen, newCap))
	res := Ite(Eq(tlen, "0"), s.T, Ite(fits,
		App("mk-slice", App("sl.base", s.T), App("sl.off", s.T), newLen, App("sl.cap", s.T)),
		rFresh))
	f.name(x, res)
	r := f.vals[x].T
	// instantiation bridge (a consequence of the definition of at_): when the result
	// shares the backing array, its element addresses are those of s, so facts
	// known about s[i] (triggered on at_(s,i)) apply to r[i]
	vc.assume(in, fmt.Sprintf("(forall ((i! Int)) (! (=> (and (= (sl.base %s) (sl.base %s)) (= (sl.off %s) (sl.off %s))) (= (at_ %s i!) (at_ %s i!))) :pattern ((at_ %s i!)) :pattern ((at_ %s i!))))", r, s.T, r, s.T, r, s.T, r, s.T))
	// fresh branch: old contents copied (assumed on the pre-store heap; fresh cells are otherwise unconstrained)
	lvs := vc.leaves(et)
	for _, lf := range lvs {
		if hasElemStep(lf.steps) {
			vc.unsupported("append of elements containing arrays")
			continue
		}
		h := st.H[lf.sort]
		src := applySteps(App("at_", s.T, "i!"), lf.steps)
		dst := applySteps(App("at_", rFresh, "i!"), lf.steps)
		vc.assume(And(in, Not(fits)), fmt.Sprintf("(forall ((i! Int)) (! (=> (and (<= 0 i!) (< i! %s)) (= (select %s %s) (select %s %s))) :pattern ((at_ %s i!)) :pattern ((at_ %s i!))))", slen, h, dst, h, src, rFresh, s.T))
	}
	// now write the appended elements at r[len(s)+j]
	k, constLen := f.constSliceLen(x.Call.Args[1])
	if constLen && k <= 4 && !tIsStr {
		for j := 0; j < k; j++ {
			srcLoc := App("Elem", App("sl.base", t.T), App("+", App("sl.off", t.T), fmt.Sprint(j)))
			v := vc.loadVal(st, srcLoc, et, in, true)
			vn := vc.define(f.prefix+x.Name()+"_elem", vc.sorts.SortOf(et), v)
			dstLoc := App("at_", r, App("+", slen, fmt.Sprint(j)))
			if len(f.declFrames) > 0 {
				f.checkWrite(x.Block(), dstLoc, et, in, x.Pos(), "append:"+vc.anchorAt(f.fn, x.Pos(), "call"))
			}
			vc.storeVal(st, dstLoc, et, vn)
		}
		return
	}
	// general case: havoc the target range
	if f.inDeclLoop(x.Block()) {
		// every cell of the written range r[len(s) .. newLen) must lie inside the
		// declared frame: checked for an arbitrary index of that range
		xk := vc.fresh(f.prefix+x.Name()+"_appidx", "Int")
		vc.assume(in, And(App("<=", slen, xk), App("<", xk, newLen)))
		f.checkWrite(x.Block(), App("at_", r, xk), et, in, x.Pos(), "append:"+vc.anchorAt(f.fn, x.Pos(), "call"))
	}
	pre := st.Clone()
	newH := f.bulkHeaps(st, pre, et, "app", func(lf leaf) string {
		pat := modPat{sort: lf.sort, base: App("sl.base", r), steps: append([]step{{elem: true}}, lf.steps...)}
		// only indices in [off+len(s), off+newLen) change
		idx := idxOfElemStep("l!", len(lf.steps))
		return And(pat.matchCond("l!"), App("<=", App("+", App("sl.off", r), slen), idx), App("<", idx, App("+", App("sl.off", r), newLen)))
	})
	for _, lf := range lvs {
		if hasElemStep(lf.steps) {
			continue
		}
		old := pre.H[lf.sort]
		h := newH[lf.sort]
		var srcv string
		dst := applySteps(App("at_", r, "x!"), lf.steps)
		if tIsStr {
			srcv = App("str.at_", t.T, App("-", "x!", slen))
		} else {
			srcv = App("select", old, applySteps(App("at_", t.T, App("-", "x!", slen)), lf.steps))
		}
		vc.assume(in, fmt.Sprintf("(forall ((x! Int)) (! (=> (and (<= %s x!) (< x! %s)) (= (select %s %s) %s)) :pattern ((at_ %s x!))))", slen, newLen, h, dst, srcv, r))
		if !tIsStr {
			// the same, indexed by the source element (so that a fact about t[j]
			// yields the fact about r[len(s)+j])
			dstj := applySteps(App("at_", r, App("+", slen, "j!")), lf.steps)
			srcj := App("select", old, applySteps(App("at_", t.T, "j!"), lf.steps))
			vc.assume(in, fmt.Sprintf("(forall ((j! Int)) (! (=> (and (<= 0 j!) (< j! %s)) (= (select %s %s) %s)) :pattern ((at_ %s j!))))", tlen, h, dstj, srcj, t.T))
		}
	}
}

func hasElemStep(ss []step) bool {
	for _, s := range ss {
		if s.elem {
			return true
		}
	}
	return false
}

func applySteps(loc string, ss []step) string {
	for _, s := range ss {
		if s.elem {
			loc = App("Elem", loc, s.idx)
		} else {
			loc = App("Fld", loc, fmt.Sprint(s.fld))
		}
	}
	return loc
}

// idxOfElemStep extracts, from location l whose path ends with nFld field
// steps preceded by an element step, the element index.
func idxOfElemStep(l string, nFld int) string {
	p := App("pth", l)
	for i := 0; i < nFld; i++ {
		p = App("pf.p", p)
	}
	return App("pe.i", p)
}

// constSliceLen recognises the varargs pattern: slice of a new [k]T array.
func (f *frame) constSliceLen(v ssa.Value) (int, bool) {
	if s, ok := v.(*ssa.Slice); ok && s.Low == nil && s.High == nil {
		if p, ok := s.X.Type().Underlying().(*types.Pointer); ok {
			if a, ok := p.Elem().Underlying().(*types.Array); ok {
				return int(a.Len()), true
			}
		}
	}
	return 0, false
}

func (f *frame) execCopy(x *ssa.Call, args []Val, in string, st *State) {
	vc := f.vc
	dst, src := args[0], args[1]
	et := dst.Typ.Underlying().(*types.Slice).Elem()
	var slen string
	srcIsStr := vc.sorts.SortOf(src.Typ) == "Str"
	if srcIsStr {
		slen = App("str.len_", src.T)
	} else {
		slen = App("sl.len", src.T)
	}
	n := vc.define(f.prefix+x.Name()+"_n", "Int", Ite(App("<=", App("sl.len", dst.T), slen), App("sl.len", dst.T), slen))
	f.set(x, n)
	if f.inDeclLoop(x.Block()) {
		vc.unsupported("copy inside a loop with a declared assigns frame")
	}
	pre := st.Clone()
	newH := f.bulkHeaps(st, pre, et, "copy", func(lf leaf) string {
		pat := modPat{sort: lf.sort, base: App("sl.base", dst.T), steps: append([]step{{elem: true}}, lf.steps...)}
		idx := idxOfElemStep("l!", len(lf.steps))
		return And(pat.matchCond("l!"), App("<=", App("sl.off", dst.T), idx), App("<", idx, App("+", App("sl.off", dst.T), n)))
	})
	for _, lf := range vc.leaves(et) {
		if hasElemStep(lf.steps) {
			vc.unsupported("copy of elements containing arrays")
			continue
		}
		old := pre.H[lf.sort]
		h := newH[lf.sort]
		d := applySteps(App("at_", dst.T, "j!"), lf.steps)
		var sv string
		if srcIsStr {
			sv = App("str.at_", src.T, "j!")
		} else {
			sv = App("select", old, applySteps(App("at_", src.T, "j!"), lf.steps))
		}
		vc.assume(in, fmt.Sprintf("(forall ((j! Int)) (! (=> (and (<= 0 j!) (< j! %s)) (= (select %s %s) %s)) :pattern ((at_ %s j!))))", n, h, d, sv, dst.T))
	}
}

// ---- deferred calls ----

func (f *frame) execRunDefers(in string, st *State) {
	vc := f.vc
	for i := len(f.defers) - 1; i >= 0; i-- {
		d := f.defers[i]
		cc := d.call.Common()
		g := And(in, d.guard)
		if d.inLoop {
			// registered once per loop iteration: the call runs an unknown number
			// of times; only its frame is modelled (program memory is havocked,
			// ghost state and non-escaping locals are kept)
			if callee := cc.StaticCallee(); callee == nil || !vc.isPureExternal(callee.RelString(nil)) {
				vc.note("deferred call registered inside a loop in %s: modelled as havoc of program memory at function exit", FuncName(f.fn))
				f.havocAllPreservingLocals(st, in, "deferred call in loop")
			}
			continue
		}
		var args []Val
		for _, a := range cc.Args {
			args = append(args, f.val(a))
		}
		if cc.IsInvoke() {
			vc.note("deferred interface call in %s: havoc", FuncName(f.fn))
			f.havocAllPreservingLocals(st, g, "deferred call")
			continue
		}
		var callee *ssa.Function
		var bindings []Val
		switch v := cc.Value.(type) {
		case *ssa.Function:
			callee = v
		case *ssa.MakeClosure:
			callee = v.Fn.(*ssa.Function)
			for _, b := range v.Bindings {
				bindings = append(bindings, f.val(b))
			}
		}
		if callee == nil {
			if _, ok := cc.Value.(*ssa.Builtin); ok {
				continue
			}
			vc.note("deferred dynamic call in %s: havoc", FuncName(f.fn))
			f.havocAllPreservingLocals(st, g, "deferred call")
			continue
		}
		// a deferred call registered under guard d.guard runs only on those paths
		pre := st.Clone()
		f.callFunction(callee, bindings, args, cc.Args, g, st, d.call)
		if d.guard != "true" && d.guard != in {
			// merge: when the defer was not registered the state is unchanged
			for _, srt := range vc.allHeaps() {
				if st.H[srt] != pre.H[srt] {
					st.H[srt] = vc.define(f.prefix+"H"+srt+"_dfr", vc.heapSort(srt), Ite(d.guard, st.H[srt], pre.H[srt]))
				}
			}
		}
	}
}

// assumePreserved: the callee's contract lists locations it never modifies
// (preserves): after the havoc those cells, if they existed before the call,
// hold their old values.
func (f *frame) assumePreserved(spec *FuncSpec, env *Env, pre, st *State) {
	if len(spec.Preserves) == 0 {
		return
	}
	vc := f.vc
	for _, p := range vc.assignPats(env, spec.Preserves) {
		hn, ho := vc.heapOf(st, p.sort), vc.heapOf(pre, p.sort)
		if hn == ho {
			continue
		}
		vc.assert(fmt.Sprintf("(forall ((l! Loc)) (! (=> (and %s (<= (rt l!) %s)) (= (select %s l!) (select %s l!))) :pattern ((select %s l!))))", p.matchCond("l!"), pre.Top, hn, ho, hn))
	}
}

// specIsLocal: the contract is written in the package directory of the
// function under verification.
func (vc *VC) specIsLocal(spec *FuncSpec) bool {
	fn := vc.Fn
	for fn.Parent() != nil {
		fn = fn.Parent()
	}
	if fn.Pkg == nil || spec.File == "" {
		return false
	}
	pos := vc.Eng.Prog.Fset.Position(fn.Pos())
	return filepath.Dir(pos.Filename) == filepath.Dir(spec.File)
}

// specAppliesHere: a contract may restrict itself to the verification of
// functions whose name has a given prefix (flag only_for=<prefix>) - used for
// lock-invariant contracts on sync primitives, which describe one particular
// mutex and must not leak into proofs about other mutexes of the package.
func (vc *VC) specAppliesHere(spec *FuncSpec) bool {
	p := spec.Flags["only_for"]
	if p == "" {
		return true
	}
	return strings.HasPrefix(FuncName(vc.Fn), p)
}

// calleeSpec: the contract to use for calls to name from the function under
// verification (the first of the alternatives whose only_for restriction
// admits it).
func (vc *VC) calleeSpec(name string) *FuncSpec {
	// an instantiated generic function is looked up under its generic name
	if i := strings.Index(name, "["); i > 0 && strings.HasSuffix(name, "]") {
		if s := vc.calleeSpec(name[:i]); s != nil {
			return s
		}
	}
	// a contract restricted to the function under verification wins over the
	// unrestricted one
	for _, s := range vc.Eng.Spec.Alt[name] {
		if s.Flags["only_for"] != "" && vc.specAppliesHere(s) {
			return s
		}
	}
	if s := vc.Eng.Spec.Funcs[name]; s != nil && vc.specAppliesHere(s) {
		return s
	}
	for _, s := range vc.Eng.Spec.Alt[name] {
		if vc.specAppliesHere(s) {
			return s
		}
	}
	return nil
}

// checkCallbackContracts: the callee's contract relies on a contract of one of
// its function-typed parameters ("<callee>.<param>(names)"); when the argument
// is a named function, that function's own contract must provide it: every
// ensures clause of the parameter contract must be, after renaming the
// parameters positionally, an ensures clause of the function; every requires
// clause of the function must be a requires clause of the parameter contract;
// and a parameter contract that assigns nothing needs a function that assigns
// nothing. (Textual subsumption: sufficient, not complete.)
func (f *frame) checkCallbackContracts(callee *ssa.Function, site ssa.Instruction, in string) {
	vc := f.vc
	ci, ok := site.(ssa.CallInstruction)
	if !ok || !f.top {
		return
	}
	args := ci.Common().Args
	params := callee.Params
	if len(callee.FreeVars) > 0 {
		return
	}
	for i, p := range params {
		if i >= len(args) {
			break
		}
		if _, isSig := p.Type().Underlying().(*types.Signature); !isSig {
			continue
		}
		key := FuncName(callee) + "." + p.Name()
		want := vc.Eng.Spec.Funcs[key]
		if want == nil {
			continue
		}
		av := args[i]
		if ct, isCT := av.(*ssa.ChangeType); isCT {
			av = ct.X
		}
		if mc, isMC := av.(*ssa.MakeClosure); isMC {
			// a closure: its own contract ("Outer$N") must provide the parameter contract
			av = mc.Fn
		}
		fn, isFn := av.(*ssa.Function)
		if !isFn {
			if par, isPar := av.(*ssa.Parameter); isPar {
				// the caller passes on its own function-typed parameter: that
				// parameter's contract must provide what the callee's needs
				if have := vc.Eng.Spec.Funcs[FuncName(f.fn)+"."+par.Name()]; have != nil {
					why := vc.callbackSubsumes(want, have, want.ParamNames, have.ParamNames)
					goal := "true"
					if why != "" {
						goal = "false"
					}
					vc.obligeIn(f, "callback", fmt.Sprintf("%s<=%s", key, FuncName(f.fn)+"."+par.Name()), in, goal, site.Pos(), "the function passed for "+key+" satisfies that parameter's contract"+why)
				}
			}
			continue
		}
		have := vc.Eng.Spec.Funcs[FuncName(fn)]
		why := ""
		if have == nil {
			why = ": " + FuncName(fn) + " has no contract"
		} else {
			var names []string
			for _, fp := range fn.Params {
				names = append(names, fp.Name())
			}
			why = vc.callbackSubsumes(want, have, want.ParamNames, names)
		}
		goal := "true"
		if why != "" {
			goal = "false"
		}
		vc.obligeIn(f, "callback", fmt.Sprintf("%s<=%s", key, FuncName(fn)), in, goal, site.Pos(), "the function passed for "+key+" satisfies that parameter's contract"+why)
	}
}

func normClause(text string, names []string) string {
	t := " " + text + " "
	for i, n := range names {
		if n == "" {
			continue
		}
		re := regexp.MustCompile(`\b` + regexp.QuoteMeta(n) + `\b`)
		t = re.ReplaceAllString(t, fmt.Sprintf("$$%d", i))
	}
	return strings.Join(strings.Fields(t), " ")
}

// namingClause: "result == absf(args)" with absf an abstract (uninterpreted)
// spec function - the parameter contract only NAMES what the callback computes
// ("for any predicate"); any function that writes nothing provides it.
var namingRe = regexp.MustCompile(`^result[0-9]* == ([A-Za-z_][A-Za-z0-9_]*)\([^()]*\)$`)

func (vc *VC) namingClause(text string) bool {
	m := namingRe.FindStringSubmatch(strings.TrimSpace(text))
	if m == nil {
		return false
	}
	pf := vc.Eng.Spec.Pures[m[1]]
	return pf != nil && pf.Abstract
}

func (vc *VC) callbackSubsumes(want, have *FuncSpec, wantNames, haveNames []string) string {
	haveEns := map[string]bool{}
	for _, c := range have.Ensures {
		haveEns[normClause(c.Text, haveNames)] = true
	}
	for _, c := range want.Ensures {
		if vc.namingClause(c.Text) {
			continue
		}
		if !haveEns[normClause(c.Text, wantNames)] {
			return ": no ensures clause '" + c.Text + "' in the contract of the function passed"
		}
	}
	wantReq := map[string]bool{}
	for _, c := range want.Requires {
		wantReq[normClause(c.Text, wantNames)] = true
	}
	for _, c := range have.Requires {
		if !wantReq[normClause(c.Text, haveNames)] {
			return ": the function passed requires '" + c.Text + "', which the parameter contract does not guarantee"
		}
	}
	if want.HasAssign && len(want.Assigns) == 0 && !(have.HasAssign && len(have.Assigns) == 0) {
		return ": the parameter contract assigns nothing, the function passed does not promise that"
	}
	return ""
}
