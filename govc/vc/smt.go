// Package vc is the verification-condition generator: go/ssa -> SMT-LIB2.
package vc

import (
	"fmt"
	"go/types"
	"math/big"
	"sort"
	"strings"
)

// Preamble declares the memory model shared by every query.
const Preamble = `(set-option :produce-models true)
(set-logic ALL)
(declare-datatypes ((Path 0)) (((PNil) (PElem (pe.p Path) (pe.i Int)) (PFld (pf.p Path) (pf.f Int)))))
(declare-datatypes ((Loc 0)) (((Null) (L (rt Int) (pth Path)))))
(define-fun Fld ((l Loc) (f Int)) Loc (L (rt l) (PFld (pth l) f)))
(define-fun Elem ((l Loc) (i Int)) Loc (L (rt l) (PElem (pth l) i)))
(declare-datatypes ((Slice 0)) (((mk-slice (sl.base Loc) (sl.off Int) (sl.len Int) (sl.cap Int)))))
(define-fun nil-slice () Slice (mk-slice Null 0 0 0))
(declare-fun at_ (Slice Int) Loc)
(assert (forall ((s Slice) (i Int)) (! (= (at_ s i) (Elem (sl.base s) (+ (sl.off s) i))) :pattern ((at_ s i)))))
(declare-fun content_ ((Array Loc Int) Slice) (Array Int Int))
(assert (forall ((h (Array Loc Int)) (s Slice) (i Int)) (! (= (select (content_ h s) i) (select h (at_ s i))) :pattern ((select (content_ h s) i)))))
(declare-datatypes ((Iface 0)) (((mk-iface (if.tag Int) (if.ptr Loc)))))
(define-fun nil-iface () Iface (mk-iface 0 Null))
(declare-sort Str 0)
(declare-fun str.len_ (Str) Int)
(declare-fun str.at_ (Str Int) Int)
(assert (forall ((s Str)) (! (>= (str.len_ s) 0) :pattern ((str.len_ s)))))
(assert (forall ((s Str) (i Int)) (! (and (<= 0 (str.at_ s i)) (< (str.at_ s i) 256)) :pattern ((str.at_ s i)))))
(assert (= (rt Null) (- 1)))
(assert (= (pth Null) PNil))
(define-fun wf-loc ((l Loc) (top Int)) Bool (or (= l Null) (and ((_ is L) l) (<= 0 (rt l)) (<= (rt l) top))))
(define-fun wf-slice ((s Slice) (top Int)) Bool (and (<= 0 (sl.off s)) (<= 0 (sl.len s)) (<= (sl.len s) (sl.cap s)) (<= (sl.cap s) 1099511627776) (wf-loc (sl.base s) top) (=> (= (sl.base s) Null) (and (= (sl.cap s) 0) (= (sl.off s) 0)))))
(define-fun wf-iface ((i Iface) (top Int)) Bool (and (wf-loc (if.ptr i) top) (>= (if.tag i) 0) (=> (= (if.tag i) 0) (= (if.ptr i) Null))))
(declare-fun bvand_ (Int Int) Int)
(declare-fun bvor_ (Int Int) Int)
(declare-fun bvxor_ (Int Int) Int)
(declare-fun shl_ (Int Int) Int)
(declare-fun shr_ (Int Int) Int)
(assert (forall ((a Int) (b Int)) (! (=> (and (>= a 0) (>= b 0)) (and (>= (bvand_ a b) 0) (<= (bvand_ a b) a) (<= (bvand_ a b) b))) :pattern ((bvand_ a b)))))
(assert (forall ((a Int) (b Int)) (! (=> (and (>= a 0) (>= b 0)) (and (>= (bvor_ a b) a) (>= (bvor_ a b) b) (<= (bvor_ a b) (+ a b)))) :pattern ((bvor_ a b)))))
(assert (forall ((a Int) (b Int)) (! (=> (and (>= a 0) (>= b 0)) (and (>= (bvxor_ a b) 0) (<= (bvxor_ a b) (+ a b)))) :pattern ((bvxor_ a b)))))
(assert (forall ((a Int) (b Int)) (! (=> (and (>= a 0) (>= b 0)) (and (>= (shr_ a b) 0) (<= (shr_ a b) a))) :pattern ((shr_ a b)))))
`

// Sorts tracks the datatypes and field ids generated on demand.
type Sorts struct {
	structSort map[string]string // types.Type string -> sort name
	structDecl []string          // declarations in dependency order
	fieldIDs   map[string]int    // "<struct type string>#<idx>" -> fid
	fieldNames map[int]string
	typeTags   map[string]int // dynamic type -> tag
	tagTypes   map[int]types.Type
	nextFid    int
	scalarSeen map[string]bool // heap sorts in use
}

func NewSorts() *Sorts {
	return &Sorts{structSort: map[string]string{}, fieldIDs: map[string]int{}, fieldNames: map[int]string{}, typeTags: map[string]int{}, tagTypes: map[int]types.Type{}, nextFid: 1, scalarSeen: map[string]bool{}}
}

func sanitize(s string) string {
	var b strings.Builder
	for _, r := range s {
		switch {
		case r >= 'a' && r <= 'z', r >= 'A' && r <= 'Z', r >= '0' && r <= '9', r == '_':
			b.WriteRune(r)
		default:
			b.WriteByte('_')
		}
	}
	return b.String()
}

// structKey gives a canonical key for a struct type (named or literal).
func structKey(t types.Type) string {
	return types.TypeString(t, nil)
}

// FieldID returns the global id of field idx of struct type t (t may be
// named; the id is keyed on the named type so distinct named structs never
// share ids).
func (s *Sorts) FieldID(t types.Type, idx int) int {
	k := fmt.Sprintf("%s#%d", structKey(t), idx)
	if id, ok := s.fieldIDs[k]; ok {
		return id
	}
	id := s.nextFid
	s.nextFid++
	s.fieldIDs[k] = id
	st := t.Underlying().(*types.Struct)
	s.fieldNames[id] = structKey(t) + "." + st.Field(idx).Name()
	return id
}

func (s *Sorts) TypeTag(t types.Type) int {
	k := types.TypeString(t, nil)
	if id, ok := s.typeTags[k]; ok {
		return id
	}
	id := len(s.typeTags) + 1
	s.typeTags[k] = id
	s.tagTypes[id] = t
	return id
}

// SortOf maps a Go type to an SMT sort.
func (s *Sorts) SortOf(t types.Type) string {
	switch u := t.Underlying().(type) {
	case *types.Basic:
		switch {
		case u.Info()&types.IsBoolean != 0:
			return "Bool"
		case u.Info()&types.IsInteger != 0:
			return "Int"
		case u.Info()&types.IsFloat != 0:
			return "Real"
		case u.Info()&types.IsString != 0:
			return "Str"
		case u.Kind() == types.UnsafePointer:
			return "Loc"
		case u.Kind() == types.UntypedNil:
			return "Loc"
		}
		return "Int"
	case *types.Pointer, *types.Map, *types.Chan, *types.Signature:
		return "Loc"
	case *types.Slice:
		return "Slice"
	case *types.Interface:
		return "Iface"
	case *types.Struct:
		return s.structSortOf(t, u)
	case *types.Array:
		return "(Array Int " + s.SortOf(u.Elem()) + ")"
	case *types.Tuple:
		return "TUPLE"
	case *types.TypeParam:
		return "Iface"
	}
	panic(fmt.Sprintf("SortOf: unsupported type %v (%T)", t, t.Underlying()))
}

func (s *Sorts) structSortOf(t types.Type, u *types.Struct) string {
	k := structKey(t)
	if n, ok := s.structSort[k]; ok {
		return n
	}
	name := fmt.Sprintf("S%d_%s", len(s.structSort), sanitize(shortName(k)))
	s.structSort[k] = name
	var fields []string
	for i := 0; i < u.NumFields(); i++ {
		fields = append(fields, fmt.Sprintf("(%s.f%d %s)", name, i, s.SortOf(u.Field(i).Type())))
	}
	if len(fields) == 0 {
		s.structDecl = append(s.structDecl, fmt.Sprintf("(declare-datatypes ((%s 0)) (((mk-%s))))", name, name))
	} else {
		s.structDecl = append(s.structDecl, fmt.Sprintf("(declare-datatypes ((%s 0)) (((mk-%s %s))))", name, name, strings.Join(fields, " ")))
	}
	return name
}

func shortName(k string) string {
	if i := strings.LastIndex(k, "/"); i >= 0 {
		k = k[i+1:]
	}
	if len(k) > 40 {
		k = k[:40]
	}
	return k
}

// HeapName is the base name of the heap array for a scalar sort.
func HeapName(sortName string) string {
	return "H_" + sanitize(sortName)
}

// ---- term helpers ----

func App(f string, args ...string) string {
	if len(args) == 0 {
		return f
	}
	return "(" + f + " " + strings.Join(args, " ") + ")"
}

func And(xs ...string) string {
	var ys []string
	for _, x := range xs {
		if x == "true" || x == "" {
			continue
		}
		if x == "false" {
			return "false"
		}
		ys = append(ys, x)
	}
	switch len(ys) {
	case 0:
		return "true"
	case 1:
		return ys[0]
	}
	return "(and " + strings.Join(ys, " ") + ")"
}

func Or(xs ...string) string {
	var ys []string
	for _, x := range xs {
		if x == "false" || x == "" {
			continue
		}
		if x == "true" {
			return "true"
		}
		ys = append(ys, x)
	}
	switch len(ys) {
	case 0:
		return "false"
	case 1:
		return ys[0]
	}
	return "(or " + strings.Join(ys, " ") + ")"
}

func Not(x string) string {
	switch x {
	case "true":
		return "false"
	case "false":
		return "true"
	}
	return "(not " + x + ")"
}

func Implies(a, b string) string {
	if a == "true" {
		return b
	}
	if a == "false" || b == "true" {
		return "true"
	}
	return "(=> " + a + " " + b + ")"
}

func Eq(a, b string) string  { return "(= " + a + " " + b + ")" }
func Ite(c, a, b string) string {
	if c == "true" {
		return a
	}
	if c == "false" {
		return b
	}
	if a == b {
		return a
	}
	return "(ite " + c + " " + a + " " + b + ")"
}

func IntLit(n int64) string {
	if n < 0 {
		return fmt.Sprintf("(- %d)", -n)
	}
	return fmt.Sprintf("%d", n)
}

func BigLit(n *big.Int) string {
	if n.Sign() < 0 {
		return "(- " + new(big.Int).Neg(n).String() + ")"
	}
	return n.String()
}

func Pow2(w int) *big.Int { return new(big.Int).Lsh(big.NewInt(1), uint(w)) }

// intInfo returns (bits, signed, ok) for an integer type.
func intInfo(t types.Type) (int, bool, bool) {
	b, ok := t.Underlying().(*types.Basic)
	if !ok || b.Info()&types.IsInteger == 0 {
		return 0, false, false
	}
	switch b.Kind() {
	case types.Int8:
		return 8, true, true
	case types.Int16:
		return 16, true, true
	case types.Int32:
		return 32, true, true
	case types.Int64, types.Int, types.UntypedInt, types.UntypedRune:
		return 64, true, true
	case types.Uint8:
		return 8, false, true
	case types.Uint16:
		return 16, false, true
	case types.Uint32:
		return 32, false, true
	case types.Uint64, types.Uint, types.Uintptr:
		return 64, false, true
	}
	return 64, true, true
}

// RangeOf gives the in-range predicate for an integer-typed term.
func RangeOf(t types.Type, x string) string {
	bits, signed, ok := intInfo(t)
	if !ok {
		return "true"
	}
	if signed {
		lo := new(big.Int).Neg(Pow2(bits - 1))
		hi := Pow2(bits - 1)
		return And(App("<=", BigLit(lo), x), App("<", x, BigLit(hi)))
	}
	return And(App("<=", "0", x), App("<", x, BigLit(Pow2(bits))))
}

// WrapInt64 selects exact two's-complement wrap-around for int / int64
// arithmetic (contract flag "int64=wrap"); otherwise signed 64-bit arithmetic is
// mathematical. Set by Engine.Verify for the function being generated.
var WrapInt64 bool

// Wrap reduces an Int term into the range of t. Signed 64-bit is left
// mathematical (assumption: no signed 64-bit overflow).
func Wrap(t types.Type, x string) string {
	bits, signed, ok := intInfo(t)
	if !ok {
		return x
	}
	if signed {
		if bits == 64 && !WrapInt64 {
			return x
		}
		m := BigLit(Pow2(bits))
		h := BigLit(Pow2(bits - 1))
		return fmt.Sprintf("(ite (and (<= (- %s) %s) (< %s %s)) %s (- (mod (+ %s %s) %s) %s))", h, x, x, h, x, x, h, m, h)
	}
	m := BigLit(Pow2(bits))
	if len(x) <= 400 {
		// one wrap up or down is spelled out linearly (what a single machine add
		// or subtract of in-range operands can produce); mod only beyond that
		m2 := BigLit(new(big.Int).Mul(Pow2(bits), big.NewInt(2)))
		return fmt.Sprintf("(ite (and (<= 0 %s) (< %s %s)) %s (ite (and (<= %s %s) (< %s %s)) (- %s %s) (ite (and (<= (- %s) %s) (< %s 0)) (+ %s %s) (mod %s %s))))", x, x, m, x, m, x, x, m2, x, m, m, x, x, x, m, x, m)
	}
	return fmt.Sprintf("(ite (and (<= 0 %s) (< %s %s)) %s (mod %s %s))", x, x, m, x, x, m)
}

// sortedKeys is a small helper for deterministic output.
func sortedKeys[V any](m map[string]V) []string {
	var ks []string
	for k := range m {
		ks = append(ks, k)
	}
	sort.Strings(ks)
	return ks
}
