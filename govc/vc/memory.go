package vc

import (
	"fmt"
	"go/types"
	"strings"
)

// HeapSorts is the fixed universe of scalar heap sorts. Structs and arrays
// are flattened into cells of these sorts.
var HeapSorts = []string{"Int", "Bool", "Loc", "Slice", "Str", "Real", "Iface"}

// State is the symbolic machine state at a program point.
type State struct {
	H   map[string]string // heap sort -> SMT array term
	Top string            // allocation high-water mark (Int term)
}

func (s *State) Clone() *State {
	n := &State{H: map[string]string{}, Top: s.Top}
	for k, v := range s.H {
		n.H[k] = v
	}
	return n
}

// Val is a symbolic value.
type Val struct {
	T     string
	Typ   types.Type
	Tuple []Val
	Clo   *Closure
}

type Closure struct {
	Fn       interface{} // *ssa.Function
	Bindings []Val
}

// step is one component of an access path suffix.
type step struct {
	fld  int    // field id, or 0 for element
	elem bool   // element step
	idx  string // exact index term, "" = any
}

// leaf is a scalar cell inside a flattened type.
type leaf struct {
	sort  string
	typ   types.Type
	steps []step
}

// leaves flattens t into scalar cells with their path suffixes. Arrays are
// represented by an element step with idx "" (any) and handled by callers.
func (vc *VC) leaves(t types.Type) []leaf {
	var out []leaf
	var rec func(t types.Type, pre []step)
	rec = func(t types.Type, pre []step) {
		switch u := t.Underlying().(type) {
		case *types.Struct:
			for i := 0; i < u.NumFields(); i++ {
				p := append(append([]step{}, pre...), step{fld: vc.sorts.FieldID(t, i)})
				rec(u.Field(i).Type(), p)
			}
		case *types.Array:
			p := append(append([]step{}, pre...), step{elem: true})
			rec(u.Elem(), p)
		default:
			out = append(out, leaf{sort: vc.sorts.SortOf(t), typ: t, steps: pre})
		}
	}
	rec(t, nil)
	return out
}

func hasArray(t types.Type) bool {
	switch u := t.Underlying().(type) {
	case *types.Struct:
		for i := 0; i < u.NumFields(); i++ {
			if hasArray(u.Field(i).Type()) {
				return true
			}
		}
	case *types.Array:
		return true
	}
	return false
}

// loadVal reads a value of type t at loc from state st. Range/wf facts for
// scalar cells are assumed under guard (they are invariants of every heap the
// engine constructs).
func (vc *VC) loadVal(st *State, loc string, t types.Type, guard string, assume bool) string {
	switch u := t.Underlying().(type) {
	case *types.Struct:
		sn := vc.sorts.SortOf(t)
		vc.flushSortDecls()
		if u.NumFields() == 0 {
			return "mk-" + sn
		}
		var fs []string
		for i := 0; i < u.NumFields(); i++ {
			fl := App("Fld", loc, fmt.Sprint(vc.sorts.FieldID(t, i)))
			fs = append(fs, vc.loadVal(st, fl, u.Field(i).Type(), guard, assume))
		}
		return App("mk-"+sn, fs...)
	case *types.Array:
		// array value: fresh array constant constrained pointwise
		es := vc.sorts.SortOf(u.Elem())
		vc.flushSortDecls()
		a := vc.fresh("arr", "(Array Int "+es+")")
		i := "i!"
		body := Eq(App("select", a, i), vc.loadVal(st, App("Elem", loc, i), u.Elem(), "true", false))
		vc.assert(fmt.Sprintf("(forall ((%s Int)) (! (=> (and (<= 0 %s) (< %s %d)) %s) :pattern ((select %s %s))))", i, i, i, u.Len(), body, a, i))
		return a
	}
	srt := vc.sorts.SortOf(t)
	v := App("select", st.H[srt], loc)
	if assume {
		switch srt {
		case "Int":
			if r := RangeOf(t, v); r != "true" {
				vc.assume(guard, r)
			}
		case "Slice":
			vc.assume(guard, App("wf-slice", v, st.Top))
		case "Loc":
			vc.assume(guard, App("wf-loc", v, st.Top))
		case "Iface":
			vc.assume(guard, App("wf-iface", v, st.Top))
		}
	}
	return v
}

// storeVal writes val (of type t) at loc, updating st in place.
func (vc *VC) storeVal(st *State, loc string, t types.Type, val string) {
	switch u := t.Underlying().(type) {
	case *types.Struct:
		sn := vc.sorts.SortOf(t)
		for i := 0; i < u.NumFields(); i++ {
			fl := App("Fld", loc, fmt.Sprint(vc.sorts.FieldID(t, i)))
			vc.storeVal(st, fl, u.Field(i).Type(), App(fmt.Sprintf("%s.f%d", sn, i), val))
		}
		return
	case *types.Array:
		// pointwise havoc of element cells with defining axiom
		for _, lf := range vc.leaves(u.Elem()) {
			_ = lf
		}
		n := u.Len()
		if n <= 8 {
			for i := int64(0); i < n; i++ {
				vc.storeVal(st, App("Elem", loc, fmt.Sprint(i)), u.Elem(), App("select", val, fmt.Sprint(i)))
			}
			return
		}
		vc.unsupported("store of large array value")
		return
	}
	srt := vc.sorts.SortOf(t)
	st.H[srt] = App("store", st.H[srt], loc, val)
	// keep terms small: name the new heap
	st.H[srt] = vc.define("h"+sanitize(srt), "(Array Loc "+srt+")", st.H[srt])
}

// zeroVal is the zero value of t as an SMT term.
func (vc *VC) zeroVal(t types.Type) string {
	switch u := t.Underlying().(type) {
	case *types.Struct:
		sn := vc.sorts.SortOf(t)
		vc.flushSortDecls()
		if u.NumFields() == 0 {
			return "mk-" + sn
		}
		var fs []string
		for i := 0; i < u.NumFields(); i++ {
			fs = append(fs, vc.zeroVal(u.Field(i).Type()))
		}
		return App("mk-"+sn, fs...)
	case *types.Array:
		return fmt.Sprintf("((as const (Array Int %s)) %s)", vc.sorts.SortOf(u.Elem()), vc.zeroVal(u.Elem()))
	}
	switch vc.sorts.SortOf(t) {
	case "Int":
		return "0"
	case "Bool":
		return "false"
	case "Loc":
		return "Null"
	case "Slice":
		return "nil-slice"
	case "Str":
		return vc.strConst("")
	case "Real":
		return "0.0"
	case "Iface":
		return "nil-iface"
	}
	panic("zeroVal " + t.String())
}

// assumeZeroAt assumes that the cells of a freshly allocated object of type t
// at loc hold zero values in st (sound because nothing else constrains fresh
// cells).
func (vc *VC) assumeZeroAt(st *State, loc string, t types.Type, guard string) {
	switch u := t.Underlying().(type) {
	case *types.Struct:
		for i := 0; i < u.NumFields(); i++ {
			vc.assumeZeroAt(st, App("Fld", loc, fmt.Sprint(vc.sorts.FieldID(t, i))), u.Field(i).Type(), guard)
		}
		return
	case *types.Array:
		i := "zi!"
		var conj []string
		vc.zeroConj(st, App("Elem", loc, i), u.Elem(), &conj)
		vc.assume(guard, fmt.Sprintf("(forall ((%s Int)) %s)", i, And(conj...)))
		return
	}
	srt := vc.sorts.SortOf(t)
	vc.assume(guard, Eq(App("select", st.H[srt], loc), vc.zeroVal(t)))
}

func (vc *VC) zeroConj(st *State, loc string, t types.Type, out *[]string) {
	switch u := t.Underlying().(type) {
	case *types.Struct:
		for i := 0; i < u.NumFields(); i++ {
			vc.zeroConj(st, App("Fld", loc, fmt.Sprint(vc.sorts.FieldID(t, i))), u.Field(i).Type(), out)
		}
		return
	case *types.Array:
		// nested arrays: leave unconstrained (over-approximation)
		return
	}
	srt := vc.sorts.SortOf(t)
	*out = append(*out, Eq(App("select", st.H[srt], loc), vc.zeroVal(t)))
}

// ---- modification patterns (frames) ----

// modPat describes a set of locations: those whose path ends with steps and
// whose remaining prefix equals base (if base != "").
type modPat struct {
	sort  string
	base  string // exact Loc term of the prefix, or "" for any
	steps []step
	all   bool // every location of this sort
}

// matchCond gives the condition under which location l is in the pattern.
func (p modPat) matchCond(l string) string {
	if p.all {
		return "true"
	}
	var conds []string
	path := App("pth", l)
	for i := len(p.steps) - 1; i >= 0; i-- {
		s := p.steps[i]
		if s.elem {
			conds = append(conds, App("(_ is PElem)", path))
			if s.idx != "" {
				conds = append(conds, Eq(App("pe.i", path), s.idx))
			}
			path = App("pe.p", path)
		} else {
			conds = append(conds, App("(_ is PFld)", path), Eq(App("pf.f", path), fmt.Sprint(s.fld)))
			path = App("pf.p", path)
		}
	}
	conds = append([]string{App("(_ is L)", l)}, conds...)
	if p.base != "" {
		conds = append(conds, App("(_ is L)", p.base), Eq(App("rt", l), App("rt", p.base)), Eq(path, App("pth", p.base)))
	}
	return And(conds...)
}

// frameAxiom relates a havocked heap hNew to hOld: cells outside the patterns
// and allocated at or below topOld keep their value.
func frameAxiom(srt, hNew, hOld, topOld string, pats []modPat) string {
	var ms []string
	for _, p := range pats {
		if p.sort != srt {
			continue
		}
		if p.all {
			return ""
		}
		ms = append(ms, p.matchCond("l!"))
	}
	ms = append(ms, App(">", App("rt", "l!"), topOld))
	return fmt.Sprintf("(forall ((l! Loc)) (! (=> (not %s) (= (select %s l!) (select %s l!))) :pattern ((select %s l!))))", Or(ms...), hNew, hOld, hNew)
}

func patsTouch(pats []modPat, srt string) bool {
	for _, p := range pats {
		if p.sort == srt {
			return true
		}
	}
	return false
}

func describePats(pats []modPat) string {
	var s []string
	for _, p := range pats {
		if p.all {
			s = append(s, p.sort+":*")
		} else {
			s = append(s, fmt.Sprintf("%s:%s+%d", p.sort, p.base, len(p.steps)))
		}
	}
	return strings.Join(s, ",")
}
