package vc

import (
	"sort"
	"fmt"
	"go/token"
	"go/types"
	"math/big"
	"strconv"
	"strings"

	"golang.org/x/tools/go/ssa"
)

func unquote(s string) (string, error) { return strconv.Unquote(s) }

func (f *frame) set(v ssa.Value, term string) {
	f.vals[v] = Val{T: term, Typ: v.Type()}
}

// name binds an SSA value to a named constant equal to term.
func (f *frame) name(v ssa.Value, term string) {
	vc := f.vc
	srt := vc.sorts.SortOf(v.Type())
	if srt == "Slice" && strings.Contains(term, "(ite ") {
		f.vals[v] = Val{T: vc.defineConst(f.prefix+v.Name(), srt, term), Typ: v.Type()}
		return
	}
	f.vals[v] = Val{T: vc.define(f.prefix+v.Name(), srt, term), Typ: v.Type()}
}

func isNonNilByConstruction(v ssa.Value) bool {
	switch v.(type) {
	case *ssa.Alloc, *ssa.FieldAddr, *ssa.IndexAddr, *ssa.Global, *ssa.MakeMap, *ssa.MakeClosure, *ssa.Function:
		return true
	}
	return false
}

func (f *frame) execInstr(ins ssa.Instruction, in string, st *State) {
	vc := f.vc
	switch x := ins.(type) {
	case *ssa.DebugRef:
		return
	case *ssa.Alloc:
		t := x.Type().Underlying().(*types.Pointer).Elem()
		loc := f.alloc(x.Name(), in, st)
		vc.assumeZeroAt(st, loc, t, in)
		f.set(x, loc)
	case *ssa.Store:
		addr := f.val(x.Addr)
		if !isNonNilByConstruction(x.Addr) {
			vc.obligeIn(f, "nil", "store:"+vc.anchorAt(f.fn, x.Pos(), "deref"), in, Not(Eq(addr.T, "Null")), x.Pos(), "store through possibly nil pointer")
		}
		t := x.Addr.Type().Underlying().(*types.Pointer).Elem()
		if len(f.declFrames) > 0 {
			f.checkWrite(x.Block(), addr.T, t, in, x.Pos(), "store:"+vc.anchorAt(f.fn, x.Pos(), "deref"))
		}
		vc.storeVal(st, addr.T, t, f.val(x.Val).T)
	case *ssa.UnOp:
		f.execUnOp(x, in, st)
	case *ssa.BinOp:
		f.execBinOp(x, in, st)
	case *ssa.FieldAddr:
		base := f.val(x.X)
		if !isNonNilByConstruction(x.X) {
			vc.obligeIn(f, "nil", vc.anchorAt(f.fn, x.Pos(), "field"), in, Not(Eq(base.T, "Null")), x.Pos(), "field access through possibly nil pointer")
		}
		stT := x.X.Type().Underlying().(*types.Pointer).Elem()
		fid := vc.sorts.FieldID(stT, x.Field)
		f.set(x, App("Fld", base.T, fmt.Sprint(fid)))
	case *ssa.Field:
		sv := f.val(x.X)
		sn := vc.sorts.SortOf(x.X.Type())
		f.name(x, App(fmt.Sprintf("%s.f%d", sn, x.Field), sv.T))
	case *ssa.IndexAddr:
		xv := f.val(x.X)
		iv := f.val(x.Index)
		switch u := x.X.Type().Underlying().(type) {
		case *types.Slice:
			vc.obligeIn(f, "bounds", vc.anchorAt(f.fn, x.Pos(), "index"), in, And(App("<=", "0", iv.T), App("<", iv.T, App("sl.len", xv.T))), x.Pos(), "slice index in range")
			f.set(x, App("at_", xv.T, iv.T))
		case *types.Pointer:
			arr := u.Elem().Underlying().(*types.Array)
			if !isNonNilByConstruction(x.X) {
				vc.obligeIn(f, "nil", vc.anchorAt(f.fn, x.Pos(), "index"), in, Not(Eq(xv.T, "Null")), x.Pos(), "index through possibly nil array pointer")
			}
			if _, isConst := x.Index.(*ssa.Const); !isConst || true {
				g := And(App("<=", "0", iv.T), App("<", iv.T, fmt.Sprint(arr.Len())))
				if c, ok := x.Index.(*ssa.Const); ok && c.Int64() >= 0 && c.Int64() < arr.Len() {
					g = "true"
				}
				if g != "true" {
					vc.obligeIn(f, "bounds", vc.anchorAt(f.fn, x.Pos(), "index"), in, g, x.Pos(), "array index in range")
				}
			}
			f.set(x, App("Elem", xv.T, iv.T))
		default:
			vc.unsupported("IndexAddr on %s", x.X.Type())
		}
	case *ssa.Index:
		xv := f.val(x.X)
		iv := f.val(x.Index)
		switch u := x.X.Type().Underlying().(type) {
		case *types.Basic: // string
			vc.obligeIn(f, "bounds", vc.anchorAt(f.fn, x.Pos(), "index"), in, And(App("<=", "0", iv.T), App("<", iv.T, App("str.len_", xv.T))), x.Pos(), "string index in range")
			f.name(x, App("str.at_", xv.T, iv.T))
		case *types.Array:
			vc.obligeIn(f, "bounds", vc.anchorAt(f.fn, x.Pos(), "index"), in, And(App("<=", "0", iv.T), App("<", iv.T, fmt.Sprint(u.Len()))), x.Pos(), "array index in range")
			f.name(x, App("select", xv.T, iv.T))
		default:
			vc.unsupported("Index on %s", x.X.Type())
			f.vals[x] = f.freshVal(x.Name(), x.Type(), in, st)
		}
	case *ssa.Slice:
		f.execSlice(x, in, st)
	case *ssa.MakeSlice:
		l := f.val(x.Len).T
		c := f.val(x.Cap).T
		vc.obligeIn(f, "makeslice", vc.anchorAt(f.fn, x.Pos(), "call"), in, And(App("<=", "0", l), App("<=", l, c), App("<=", c, "1099511627776")), x.Pos(), "make: 0 <= len <= cap <= 2^40 (allocation size is bounded; existing slices are assumed to have at most 2^40 elements)")
		base := f.alloc(x.Name(), in, st)
		et := x.Type().Underlying().(*types.Slice).Elem()
		var conj []string
		vc.zeroConj(st, App("Elem", base, "zi!"), et, &conj)
		if len(conj) > 0 {
			vc.assume(in, fmt.Sprintf("(forall ((zi! Int)) %s)", And(conj...)))
		}
		f.name(x, App("mk-slice", base, "0", l, c))
	case *ssa.MakeMap, *ssa.MakeChan:
		loc := f.alloc(ins.(ssa.Value).Name(), in, st)
		if mm, ok := x.(*ssa.MakeMap); ok {
			if mm.Reserve != nil {
				rv := f.val(mm.Reserve).T
				vc.obligeIn(f, "makemap", vc.anchorAt(f.fn, mm.Pos(), "call"), in, App("<=", rv, "1099511627776"), mm.Pos(), "make(map, n): the size hint is bounded (n <= 2^40)")
			}
			vc.mapInitEmpty(st, loc, mm.Type(), in)
		}
		f.set(ins.(ssa.Value), loc)
	case *ssa.MakeClosure:
		loc := f.alloc(x.Name(), in, st)
		var bs []Val
		for _, b := range x.Bindings {
			bs = append(bs, f.val(b))
		}
		f.vals[x] = Val{T: loc, Typ: x.Type(), Clo: &Closure{Fn: x.Fn.(*ssa.Function), Bindings: bs}}
	case *ssa.MakeInterface:
		f.execMakeInterface(x, in, st)
	case *ssa.ChangeInterface:
		f.vals[x] = Val{T: f.val(x.X).T, Typ: x.Type()}
	case *ssa.ChangeType:
		v := f.val(x.X)
		f.vals[x] = Val{T: v.T, Typ: x.Type(), Clo: v.Clo}
	case *ssa.Convert:
		f.execConvert(x, in, st)
	case *ssa.TypeAssert:
		f.execTypeAssert(x, in, st)
	case *ssa.Extract:
		tv := f.val(x.Tuple)
		if x.Index < len(tv.Tuple) {
			f.vals[x] = tv.Tuple[x.Index]
		} else {
			vc.unsupported("Extract from non-tuple %s", x.Tuple.Name())
			f.vals[x] = f.freshVal(x.Name(), x.Type(), in, st)
		}
	case *ssa.Call:
		f.execCall(x, in, st)
	case *ssa.Lookup:
		f.execLookup(x, in, st)
	case *ssa.MapUpdate:
		f.execMapUpdate(x, in, st)
	case *ssa.Range:
		f.execRange(x, in, st)
	case *ssa.Next:
		f.execNext(x, in, st)
	case *ssa.Defer:
		inLoop := false
		for _, li := range f.loops {
			if li.blocks[x.Block()] {
				inLoop = true
			}
		}
		f.defers = append(f.defers, deferred{x, in, inLoop})
	case *ssa.RunDefers:
		f.execRunDefers(in, st)
	case *ssa.Go:
		vc.note("go statement in %s abstracted (spawned goroutine not modelled)", FuncName(f.fn))
		f.havocAll(st, in, "go statement")
	case *ssa.Send:
		vc.note("channel send in %s abstracted", FuncName(f.fn))
	case *ssa.Select:
		vc.note("select in %s abstracted as havoc", FuncName(f.fn))
		f.vals[x] = f.freshVal(x.Name(), x.Type(), in, st)
	case *ssa.SliceToArrayPointer:
		xv := f.val(x.X)
		f.set(x, App("Elem", App("sl.base", xv.T), App("sl.off", xv.T)))
		vc.unsupported("SliceToArrayPointer")
	default:
		vc.unsupported("instruction %T in %s", ins, FuncName(f.fn))
		if v, ok := ins.(ssa.Value); ok {
			f.vals[v] = f.freshVal(v.Name(), v.Type(), in, st)
		}
	}
}

// alloc returns a fresh root location.
func (f *frame) alloc(hint, in string, st *State) string {
	vc := f.vc
	a := vc.fresh(f.prefix+"alloc_"+hint, "Int")
	vc.assert(App(">", a, st.Top))
	st.Top = a
	return App("L", a, "PNil")
}

func (f *frame) execUnOp(x *ssa.UnOp, in string, st *State) {
	vc := f.vc
	v := f.val(x.X)
	switch x.Op {
	case token.MUL: // load
		if !isNonNilByConstruction(x.X) {
			vc.obligeIn(f, "nil", "load:"+vc.anchorAt(f.fn, x.Pos(), "deref"), in, Not(Eq(v.T, "Null")), x.Pos(), "load through possibly nil pointer")
		}
		t := x.X.Type().Underlying().(*types.Pointer).Elem()
		term := vc.loadVal(st, v.T, t, in, true)
		f.name(x, term)
		// closures stored in cells are not tracked
	case token.SUB:
		if vc.sorts.SortOf(x.Type()) == "Real" {
			f.name(x, App("-", v.T))
		} else {
			f.name(x, Wrap(x.Type(), App("-", v.T)))
		}
	case token.NOT:
		f.name(x, Not(v.T))
	case token.XOR:
		bits, signed, _ := intInfo(x.Type())
		if signed {
			f.name(x, App("-", App("-", v.T), "1"))
		} else {
			f.name(x, App("-", BigLit(new(big.Int).Sub(Pow2(bits), big.NewInt(1))), v.T))
		}
	case token.ARROW:
		vc.note("channel receive in %s abstracted as havoc", FuncName(f.fn))
		f.vals[x] = f.freshVal(x.Name(), x.Type(), in, st)
	default:
		vc.unsupported("unary op %s", x.Op)
		f.vals[x] = f.freshVal(x.Name(), x.Type(), in, st)
	}
}

func constInt(v ssa.Value) (int64, bool) {
	if c, ok := v.(*ssa.Const); ok && c.Value != nil {
		if b, ok := c.Type().Underlying().(*types.Basic); ok && b.Info()&types.IsInteger != 0 {
			if i, exact := c.Value.ExactString(), true; exact {
				n, err := strconv.ParseInt(i, 10, 64)
				if err == nil {
					return n, true
				}
			}
		}
	}
	return 0, false
}

func (f *frame) execBinOp(x *ssa.BinOp, in string, st *State) {
	vc := f.vc
	a, b := f.val(x.X), f.val(x.Y)
	srt := vc.sorts.SortOf(x.X.Type())
	switch x.Op {
	case token.EQL, token.NEQ:
		var e string
		switch srt {
		case "Slice": // only comparison with nil is legal
			if isNilConst(x.Y) {
				e = Eq(App("sl.base", a.T), "Null")
			} else {
				e = Eq(App("sl.base", b.T), "Null")
			}
		case "Iface":
			if isNilConst(x.Y) {
				e = Eq(App("if.tag", a.T), "0")
			} else if isNilConst(x.X) {
				e = Eq(App("if.tag", b.T), "0")
			} else {
				e = Eq(a.T, b.T)
			}
		case "Str":
			e = vc.strEq(a.T, b.T)
		default:
			e = Eq(a.T, b.T)
		}
		if x.Op == token.NEQ {
			e = Not(e)
		}
		f.name(x, e)
		return
	case token.LSS, token.LEQ, token.GTR, token.GEQ:
		op := map[token.Token]string{token.LSS: "<", token.LEQ: "<=", token.GTR: ">", token.GEQ: ">="}[x.Op]
		if srt == "Str" {
			vc.note("string ordering comparison abstracted in %s", FuncName(f.fn))
			f.vals[x] = f.freshVal(x.Name(), x.Type(), in, st)
			return
		}
		f.name(x, App(op, a.T, b.T))
		return
	}
	if srt == "Real" {
		op := map[token.Token]string{token.ADD: "+", token.SUB: "-", token.MUL: "*", token.QUO: "/"}[x.Op]
		if op == "" {
			vc.unsupported("float op %s", x.Op)
			f.vals[x] = f.freshVal(x.Name(), x.Type(), in, st)
			return
		}
		f.name(x, App(op, a.T, b.T))
		return
	}
	if srt == "Str" {
		if x.Op == token.ADD {
			f.name(x, vc.strCat(a.T, b.T))
			return
		}
		vc.unsupported("string op %s", x.Op)
		return
	}
	if srt == "Bool" {
		switch x.Op {
		case token.AND, token.LAND:
			f.name(x, And(a.T, b.T))
		case token.OR, token.LOR:
			f.name(x, Or(a.T, b.T))
		default:
			vc.unsupported("bool op %s", x.Op)
		}
		return
	}
	t := x.Type()
	bits, signed, _ := intInfo(t)
	switch x.Op {
	case token.ADD:
		s := App("+", a.T, b.T)
		if !signed {
			m := BigLit(Pow2(bits))
			s = Ite(App("<", s, m), s, App("-", s, m))
		} else {
			s = Wrap(t, s)
		}
		f.name(x, s)
	case token.SUB:
		s := App("-", a.T, b.T)
		if !signed {
			s = Ite(App(">=", s, "0"), s, App("+", s, BigLit(Pow2(bits))))
		} else {
			s = Wrap(t, s)
		}
		f.name(x, s)
	case token.MUL:
		f.name(x, Wrap(t, App("*", a.T, b.T)))
	case token.QUO, token.REM:
		if n, ok := constInt(x.Y); !ok || n == 0 {
			vc.obligeIn(f, "div", vc.anchorAt(f.fn, x.Pos(), "binop"), in, Not(Eq(b.T, "0")), x.Pos(), "division by zero")
		}
		var q string
		if !signed {
			q = App("div", a.T, b.T)
		} else {
			// truncated division
			abs := func(s string) string { return Ite(App(">=", s, "0"), s, App("-", s)) }
			q0 := App("div", abs(a.T), abs(b.T))
			q = Ite(Eq(App(">=", a.T, "0"), App(">=", b.T, "0")), q0, App("-", q0))
		}
		if x.Op == token.QUO {
			f.name(x, q)
		} else {
			if !signed {
				f.name(x, App("mod", a.T, b.T))
			} else {
				f.name(x, App("-", a.T, App("*", b.T, q)))
			}
		}
	case token.SHL:
		if n, ok := constInt(x.Y); ok && n >= 0 && n < 64 {
			f.name(x, Wrap(t, App("*", a.T, BigLit(Pow2(int(n))))))
		} else {
			f.name(x, Wrap(t, App("shl_", a.T, b.T)))
			vc.assume(in, Implies(Eq(b.T, "0"), Eq(f.vals[x].T, a.T)))
		}
	case token.SHR:
		if n, ok := constInt(x.Y); ok && n >= 0 && n < 64 {
			f.name(x, App("div", a.T, BigLit(Pow2(int(n)))))
		} else {
			f.name(x, App("shr_", a.T, b.T))
		}
	case token.AND:
		if n, ok := constInt(x.Y); ok && n >= 0 && isMask(n) {
			f.name(x, App("mod", a.T, BigLit(big.NewInt(n+1))))
		} else if n, ok := constInt(x.X); ok && n >= 0 && isMask(n) {
			f.name(x, App("mod", b.T, BigLit(big.NewInt(n+1))))
		} else {
			f.name(x, App("bvand_", a.T, b.T))
		}
	case token.OR:
		f.name(x, App("bvor_", a.T, b.T))
		// disjoint bit ranges: when one operand is a multiple of 2^k and the other
		// is below 2^k, OR is addition. Instantiated for the constant shift
		// amounts that occur in this function (no quantifier, no bit-vectors).
		if f.vals[x].T != "" {
			for _, k := range shiftConsts(f.fn) {
				p2 := BigLit(Pow2(k))
				r := f.vals[x].T
				vc.assume(in, Implies(And(Eq(App("mod", a.T, p2), "0"), App("<=", "0", b.T), App("<", b.T, p2)), Eq(r, App("+", a.T, b.T))))
				vc.assume(in, Implies(And(Eq(App("mod", b.T, p2), "0"), App("<=", "0", a.T), App("<", a.T, p2)), Eq(r, App("+", a.T, b.T))))
			}
		}
	case token.XOR:
		f.name(x, App("bvxor_", a.T, b.T))
	case token.AND_NOT:
		vc.note("&^ abstracted in %s", FuncName(f.fn))
		f.vals[x] = f.freshVal(x.Name(), x.Type(), in, st)
	default:
		vc.unsupported("binary op %s", x.Op)
		f.vals[x] = f.freshVal(x.Name(), x.Type(), in, st)
	}
}

func isMask(n int64) bool { return n&(n+1) == 0 }

func isNilConst(v ssa.Value) bool {
	c, ok := v.(*ssa.Const)
	return ok && c.Value == nil
}

func (vc *VC) strEq(a, b string) string { return Eq(a, b) }

func (vc *VC) strCat(a, b string) string {
	if !vc.absFns["str.cat_"] {
		vc.absFns["str.cat_"] = true
		vc.lines = append(vc.lines, "(declare-fun str.cat_ (Str Str) Str)",
			"(assert (forall ((a Str) (b Str)) (! (= (str.len_ (str.cat_ a b)) (+ (str.len_ a) (str.len_ b))) :pattern ((str.cat_ a b)))))")
	}
	return App("str.cat_", a, b)
}

func (f *frame) execSlice(x *ssa.Slice, in string, st *State) {
	vc := f.vc
	xv := f.val(x.X)
	lo := "0"
	if x.Low != nil {
		lo = f.val(x.Low).T
	}
	anchor := vc.anchorAt(f.fn, x.Pos(), "slice")
	switch u := x.X.Type().Underlying().(type) {
	case *types.Slice:
		hi := App("sl.len", xv.T)
		if x.High != nil {
			hi = f.val(x.High).T
		}
		capT := App("sl.cap", xv.T)
		mx := capT
		if x.Max != nil {
			mx = f.val(x.Max).T
			vc.obligeIn(f, "bounds", anchor, in, And(App("<=", "0", lo), App("<=", lo, hi), App("<=", hi, mx), App("<=", mx, capT)), x.Pos(), "slice bounds (3-index)")
		} else {
			vc.obligeIn(f, "bounds", anchor, in, And(App("<=", "0", lo), App("<=", lo, hi), App("<=", hi, capT)), x.Pos(), "slice bounds")
		}
		f.name(x, App("mk-slice", App("sl.base", xv.T), App("+", App("sl.off", xv.T), lo), App("-", hi, lo), App("-", mx, lo)))
		// instantiation bridge (consequence of the definition of at_): s[lo:hi][i] is s[lo+i]
		vc.assume(in, fmt.Sprintf("(forall ((i! Int)) (! (= (at_ %s i!) (at_ %s (+ i! %s))) :pattern ((at_ %s i!))))", f.vals[x].T, xv.T, lo, f.vals[x].T))
	case *types.Basic: // string
		hi := App("str.len_", xv.T)
		if x.High != nil {
			hi = f.val(x.High).T
		}
		vc.obligeIn(f, "bounds", anchor, in, And(App("<=", "0", lo), App("<=", lo, hi), App("<=", hi, App("str.len_", xv.T))), x.Pos(), "string slice bounds")
		f.name(x, vc.strSub(xv.T, lo, hi))
	case *types.Pointer:
		arr := u.Elem().Underlying().(*types.Array)
		n := fmt.Sprint(arr.Len())
		hi := n
		if x.High != nil {
			hi = f.val(x.High).T
		}
		if !isNonNilByConstruction(x.X) {
			vc.obligeIn(f, "nil", anchor, in, Not(Eq(xv.T, "Null")), x.Pos(), "slicing nil array pointer")
		}
		if x.Low != nil || x.High != nil {
			vc.obligeIn(f, "bounds", anchor, in, And(App("<=", "0", lo), App("<=", lo, hi), App("<=", hi, n)), x.Pos(), "array slice bounds")
		}
		f.name(x, App("mk-slice", xv.T, lo, App("-", hi, lo), App("-", n, lo)))
	default:
		vc.unsupported("Slice of %s", x.X.Type())
		f.vals[x] = f.freshVal(x.Name(), x.Type(), in, st)
	}
}

func (vc *VC) strSub(s, lo, hi string) string {
	if !vc.absFns["str.sub_"] {
		vc.absFns["str.sub_"] = true
		vc.lines = append(vc.lines, "(declare-fun str.sub_ (Str Int Int) Str)",
			"(assert (forall ((s Str) (a Int) (b Int)) (! (=> (and (<= 0 a) (<= a b)) (= (str.len_ (str.sub_ s a b)) (- b a))) :pattern ((str.sub_ s a b)))))",
			"(assert (forall ((s Str) (a Int) (b Int) (i Int)) (! (=> (and (<= 0 i) (< i (- b a))) (= (str.at_ (str.sub_ s a b) i) (str.at_ s (+ a i)))) :pattern ((str.at_ (str.sub_ s a b) i)))))",
			"(assert (forall ((s Str)) (! (= (str.sub_ s 0 (str.len_ s)) s) :pattern ((str.sub_ s 0 (str.len_ s))))))")
	}
	return App("str.sub_", s, lo, hi)
}

func (f *frame) execConvert(x *ssa.Convert, in string, st *State) {
	vc := f.vc
	v := f.val(x.X)
	from, to := vc.sorts.SortOf(x.X.Type()), vc.sorts.SortOf(x.Type())
	switch {
	case from == "Int" && to == "Int":
		fb, fs, _ := intInfo(x.X.Type())
		tb, ts, _ := intInfo(x.Type())
		// widening within the same signedness or unsigned->wider signed is identity
		if (fs == ts && tb >= fb) || (!fs && ts && tb > fb) {
			f.vals[x] = Val{T: v.T, Typ: x.Type()}
			return
		}
		if ts && tb == 64 && !fs && fb == 64 {
			// uint64 -> int64: wrap
			f.name(x, Ite(App("<", v.T, BigLit(Pow2(63))), v.T, App("-", v.T, BigLit(Pow2(64)))))
			return
		}
		if ts && tb == 64 {
			f.vals[x] = Val{T: v.T, Typ: x.Type()}
			return
		}
		if nf := ""; vc.Spec != nil && f.top && tb < fb && func() bool { nf = vc.Spec.Flags["narrow"]; return nf == "checked" || (nf != "" && nf == types.TypeString(x.Type(), nil)) }() {
			// "flag narrow=checked" (every one) / "flag narrow=uint16" (those to that
			// type): a conversion to a narrower integer type must
			// not change the value (a silent truncation is reported like an
			// out-of-range index). Not subject to may_panic: it does not panic.
			if r := RangeOf(x.Type(), v.T); r != "true" {
				vc.oblige("narrow", vc.anchorAt(f.fn, x.Pos(), "call"), in, r, vc.posOf(x.Pos()), "narrowing conversion keeps the value")
			}
		}
		f.name(x, Wrap(x.Type(), v.T))
	case from == "Int" && to == "Real":
		f.name(x, App("to_real", v.T))
	case from == "Real" && to == "Int":
		vc.note("float->int conversion abstracted (to_int) in %s", FuncName(f.fn))
		f.name(x, App("to_int", v.T))
	case from == "Real" && to == "Real":
		f.vals[x] = Val{T: v.T, Typ: x.Type()}
	case from == "Slice" && to == "Str":
		f.name(x, vc.bytesToStr(st, v.T))
	case from == "Str" && to == "Slice":
		// []byte(s): fresh slice with the string's bytes
		base := f.alloc(x.Name(), in, st)
		n := App("str.len_", v.T)
		sl := App("mk-slice", base, "0", n, n)
		f.name(x, sl)
		sn := f.vals[x].T
		vc.assume(in, fmt.Sprintf("(forall ((i! Int)) (! (=> (and (<= 0 i!) (< i! %s)) (= (select %s (at_ %s i!)) (str.at_ %s i!))) :pattern ((at_ %s i!)) :pattern ((str.at_ %s i!))))", n, st.H["Int"], sn, v.T, sn, v.T))
	case from == "Int" && to == "Str":
		vc.note("string(rune) abstracted in %s", FuncName(f.fn))
		f.vals[x] = f.freshVal(x.Name(), x.Type(), in, st)
	case from == to:
		f.vals[x] = Val{T: v.T, Typ: x.Type()}
	default:
		vc.unsupported("conversion %s -> %s", x.X.Type(), x.Type())
		f.vals[x] = f.freshVal(x.Name(), x.Type(), in, st)
	}
}

// bytesToStr gives the string with the bytes of slice s in heap st.
func (vc *VC) bytesToStr(st *State, s string) string {
	if !vc.absFns["str.of_"] {
		vc.absFns["str.of_"] = true
		vc.lines = append(vc.lines, "(declare-fun str.of_ ((Array Loc Int) Slice) Str)",
			"(assert (forall ((h (Array Loc Int)) (s Slice)) (! (=> (>= (sl.len s) 0) (= (str.len_ (str.of_ h s)) (sl.len s))) :pattern ((str.of_ h s)))))",
			// only for cells that hold a byte: str.at_ is a byte for EVERY string, so an
			// unguarded equation is inconsistent for heaps h that hold other integers
			// at those cells (found by an unsat reachability cover, 2026-09-22)
			"(assert (forall ((h (Array Loc Int)) (s Slice) (i Int)) (! (=> (and (<= 0 i) (< i (sl.len s)) (<= 0 (select h (Elem (sl.base s) (+ (sl.off s) i)))) (< (select h (Elem (sl.base s) (+ (sl.off s) i))) 256)) (= (str.at_ (str.of_ h s) i) (select h (Elem (sl.base s) (+ (sl.off s) i))))) :pattern ((str.at_ (str.of_ h s) i)))))")
	}
	return App("str.of_", st.H["Int"], s)
}

func (f *frame) execMakeInterface(x *ssa.MakeInterface, in string, st *State) {
	vc := f.vc
	v := f.val(x.X)
	tag := vc.sorts.TypeTag(x.X.Type())
	srt := vc.sorts.SortOf(x.X.Type())
	if srt == "Loc" {
		f.name(x, App("mk-iface", fmt.Sprint(tag), v.T))
		return
	}
	// box a non-pointer value
	box := f.alloc(x.Name()+"_box", in, st)
	fn := vc.unboxFn(srt)
	vc.assume(in, Eq(App(fn, box), v.T))
	f.name(x, App("mk-iface", fmt.Sprint(tag), box))
}

func (vc *VC) unboxFn(srt string) string {
	fn := "unbox_" + sanitize(srt)
	if !vc.absFns[fn] {
		vc.absFns[fn] = true
		vc.flushSortDecls()
		vc.lines = append(vc.lines, fmt.Sprintf("(declare-fun %s (Loc) %s)", fn, srt))
	}
	return fn
}

func (f *frame) execTypeAssert(x *ssa.TypeAssert, in string, st *State) {
	vc := f.vc
	v := f.val(x.X)
	if types.IsInterface(x.AssertedType) {
		// interface-to-interface: outcome abstract
		ok := vc.fresh(f.prefix+x.Name()+"_ok", "Bool")
		if x.CommaOk {
			res := Val{T: Ite(ok, v.T, "nil-iface"), Typ: x.AssertedType}
			f.vals[x] = Val{Typ: x.Type(), Tuple: []Val{res, {T: ok, Typ: types.Typ[types.Bool]}}}
		} else {
			vc.note("interface-to-interface assertion in %s assumed to succeed only when non-nil", FuncName(f.fn))
			vc.obligeIn(f, "typeassert", vc.anchorAt(f.fn, x.Pos(), "assert"), in, Not(Eq(App("if.tag", v.T), "0")), x.Pos(), "type assertion on possibly nil interface")
			f.vals[x] = Val{T: v.T, Typ: x.AssertedType}
		}
		return
	}
	tag := fmt.Sprint(vc.sorts.TypeTag(x.AssertedType))
	is := Eq(App("if.tag", v.T), tag)
	srt := vc.sorts.SortOf(x.AssertedType)
	var payload string
	if srt == "Loc" {
		payload = App("if.ptr", v.T)
	} else {
		payload = App(vc.unboxFn(srt), App("if.ptr", v.T))
	}
	if x.CommaOk {
		okn := vc.define(f.prefix+x.Name()+"_ok", "Bool", is)
		if vc.Spec != nil && vc.Spec.Flags["notypednil"] == "true" && srt == "Loc" {
			// contract flag: interface values examined by this function never hold
			// a typed nil pointer (e.g. protobuf oneof wrappers, always allocated
			// by the decoder). Listed as an assumption in the evidence.
			vc.assume(And(in, okn), Not(Eq(payload, "Null")))
			vc.note("assumption (flag notypednil) in %s: an interface whose dynamic type is %s holds a non-nil pointer", FuncName(vc.Fn), x.AssertedType)
		}
		res := Val{T: Ite(okn, payload, vc.zeroVal(x.AssertedType)), Typ: x.AssertedType}
		f.vals[x] = Val{Typ: x.Type(), Tuple: []Val{res, {T: okn, Typ: types.Typ[types.Bool]}}}
		return
	}
	vc.obligeIn(f, "typeassert", vc.anchorAt(f.fn, x.Pos(), "assert"), in, is, x.Pos(), "type assertion must hold")
	f.name(x, payload)
}

// havocAll forgets every heap.
func (f *frame) havocAll(st *State, in, why string) {
	vc := f.vc
	pre := st.Clone()
	for _, srt := range vc.allHeaps() {
		st.H[srt] = vc.fresh(f.prefix+"H"+srt+"_havoc", vc.heapSort(srt))
	}
	tp := vc.fresh(f.prefix+"top_havoc", "Int")
	vc.assert(App(">=", tp, pre.Top))
	st.Top = tp
	vc.assertHeapWF(st, nil)
	// locals of the current frames that never escape are unaffected: handled
	// by the caller through escape analysis (not modelled: conservative).
}

// shiftConsts lists the distinct constant left-shift amounts in fn (sorted).
func shiftConsts(fn *ssa.Function) []int {
	seen := map[int]bool{}
	for _, b := range fn.Blocks {
		for _, ins := range b.Instrs {
			if bo, ok := ins.(*ssa.BinOp); ok && bo.Op == token.SHL {
				if n, ok := constInt(bo.Y); ok && n > 0 && n < 64 {
					seen[int(n)] = true
				}
			}
		}
	}
	var out []int
	for k := range seen {
		out = append(out, k)
	}
	sort.Ints(out)
	return out
}
