package vc

import (
	"go/constant"
	"fmt"
	"go/types"
	"strings"

	"golang.org/x/tools/go/ssa"
)

// AssertSpec is a ghost assertion attached to a program point:
//
//	//@   assert at call:delete: q.items[item.repoID] == item
//	//@   assert at call:heap.Push#2: item.heapIdx < 0
//
// The anchor names an instruction by what it does (call to a builtin or
// function, optionally the k-th such call in block order), never by line.
type AssertSpec struct {
	Anchor string
	Occ    int // 0 = every occurrence
	C      *Clause
	Update string // non-empty: ghost assignment 'Update = C.Expr' at the anchor instead of an assertion
}

func parseAssert(text, path string, line int) (*AssertSpec, error) {
	t := strings.TrimSpace(text)
	if !strings.HasPrefix(t, "at ") {
		return nil, fmt.Errorf("assert needs 'at <anchor>: <expr>'")
	}
	t = strings.TrimSpace(t[3:])
	i := strings.Index(t, ": ")
	if i < 0 {
		return nil, fmt.Errorf("assert needs 'at <anchor>: <expr>'")
	}
	anchor, body := strings.TrimSpace(t[:i]), t[i+2:]
	a := &AssertSpec{Anchor: anchor}
	if j := strings.LastIndex(anchor, "#"); j > 0 {
		fmt.Sscanf(anchor[j+1:], "%d", &a.Occ)
		a.Anchor = anchor[:j]
	}
	e, err := ParseSpecExpr(body)
	if err != nil {
		return nil, err
	}
	a.C = &Clause{Kind: "assert", Text: body, Expr: e, Line: line, File: path}
	return a, nil
}

// anchorMatches: does instruction ins perform what the anchor names?
func anchorMatches(ins ssa.Instruction, anchor string) bool {
	kind, name, _ := strings.Cut(anchor, ":")
	switch kind {
	case "call":
		c, ok := ins.(ssa.CallInstruction)
		if !ok {
			return false
		}
		cc := c.Common()
		if b, isB := cc.Value.(*ssa.Builtin); isB {
			return b.Name() == name
		}
		if cc.IsInvoke() {
			return cc.Method.Name() == name
		}
		if p, isParam := cc.Value.(*ssa.Parameter); isParam {
			// call through a function-valued parameter, named by the parameter
			return p.Name() == name
		}
		if fv, isFV := cc.Value.(*ssa.FreeVar); isFV {
			return fv.Name() == name
		}
		if callee := cc.StaticCallee(); callee != nil {
			full := callee.RelString(nil)
			short := FuncName(callee)
			return full == name || short == name || strings.HasSuffix(short, "."+name) || strings.HasSuffix(full, "/"+name)
		}
	case "alloc":
		// alloc:T : allocation of a T (composite literal &T{...} or new(T))
		a, ok := ins.(*ssa.Alloc)
		if !ok {
			return false
		}
		if p, isP := a.Type().Underlying().(*types.Pointer); isP {
			if n, isN := p.Elem().(*types.Named); isN {
				return n.Obj().Name() == name
			}
		}
		return false
	case "send":
		// send : a channel send (arg(0) is the value sent)
		_, ok := ins.(*ssa.Send)
		return ok
	case "mapupdate":
		// mapupdate        : any map update
		// mapupdate:<name> : update of the map held in field <name> / parameter or variable <name>
		mu, ok := ins.(*ssa.MapUpdate)
		if !ok {
			return false
		}
		if name == "" {
			return true
		}
		switch m := mu.Map.(type) {
		case *ssa.UnOp:
			if fa, isFA := m.X.(*ssa.FieldAddr); isFA {
				st := fa.X.Type().Underlying().(*types.Pointer).Elem().Underlying().(*types.Struct)
				return st.Field(fa.Field).Name() == name
			}
			if a, isA := m.X.(*ssa.Alloc); isA {
				return a.Comment == name
			}
		case *ssa.Parameter:
			return m.Name() == name
		case *ssa.Field:
			return m.X.Type().Underlying().(*types.Struct).Field(m.Field).Name() == name
		}
		return false
	case "return":
		// return          : any return
		// return:"text"   : a return whose first result is that string constant
		r, ok := ins.(*ssa.Return)
		if !ok {
			return false
		}
		if name == "" {
			return true
		}
		if len(r.Results) == 0 {
			return false
		}
		if c, isC := r.Results[0].(*ssa.Const); isC && c.Value != nil && c.Value.Kind() == constant.String {
			return constant.StringVal(c.Value) == strings.Trim(name, "\"")
		}
		return false
	}
	return false
}

// occurrenceOf numbers matching instructions in block/instruction order.
func occurrenceOf(fn *ssa.Function, ins ssa.Instruction, anchor string) int {
	n := 0
	for _, b := range fn.Blocks {
		for _, x := range b.Instrs {
			if anchorMatches(x, anchor) {
				n++
				if x == ins {
					return n
				}
			}
		}
	}
	return 0
}

// checkAsserts emits the obligations of the ghost assertions anchored at ins.
func (f *frame) checkAsserts(ins ssa.Instruction, in string, st *State) {
	if !f.top || f.spec == nil || len(f.spec.Asserts) == 0 {
		return
	}
	vc := f.vc
	for i, a := range f.spec.Asserts {
		if !anchorMatches(ins, a.Anchor) {
			continue
		}
		occ := occurrenceOf(f.fn, ins, a.Anchor)
		if a.Occ != 0 && a.Occ != occ {
			continue
		}
		f.assertHit[i] = true
		env := f.baseEnv(st)
		if sd, isSend := ins.(*ssa.Send); isSend {
			env.callArgs = []Val{f.val(sd.X)}
		}
		if ci, isCall := ins.(ssa.CallInstruction); isCall {
			for _, a := range ci.Common().Args {
				env.callArgs = append(env.callArgs, f.val(a))
			}
			if env.callArgs == nil {
				env.callArgs = []Val{}
			}
		}
		b := ins.Block()
		env.lookup = func(name string) (Val, bool) {
			// loop counters of enclosing loops
			if name == "$i" || name == "$n" {
				var best *ssa.BasicBlock
				var bv ssa.Value
				for h, li := range f.loops {
					if !li.blocks[b] {
						continue
					}
					for _, x := range h.Instrs {
						phi, ok := x.(*ssa.Phi)
						if !ok {
							break
						}
						if isRangePhi(name, phi) && (best == nil || best.Dominates(h)) {
							best, bv = h, phi
						}
					}
				}
				if bv != nil {
					return f.val(bv), true
				}
				return Val{}, false
			}
			return f.lookupVarAt(name, b, ins, st)
		}
		if a.Update != "" {
			g := vc.Eng.Spec.Ghosts[a.Update]
			if g == nil {
				vc.unsupported("spec: ghost at %s: unknown ghost variable %s", a.Anchor, a.Update)
				continue
			}
			gt := vc.resolveGhostType(env, g)
			v := vc.evalSpec(env, a.C.Expr)
			vn := vc.define(f.prefix+"ghost_"+a.Update, vc.sorts.SortOf(gt), v.T)
			vc.storeVal(st, vc.ghostLoc(a.Update), gt, vn)
			continue
		}
		t := vc.evalSpec(env, a.C.Expr)
		vc.oblige("assert", fmt.Sprintf("%s@%d", a.Anchor, occ), in, t.T, fmt.Sprintf("%s:%d", strings.TrimPrefix(a.C.File, "/repo/"), a.C.Line), a.C.Text)
		// an assertion that has been proved may be used afterwards
		vc.assume(in, t.T)
	}
}

// AnchorMatches exports the anchor matcher for the frames back end.
func AnchorMatches(ins ssa.Instruction, anchor string) bool { return anchorMatches(ins, anchor) }
