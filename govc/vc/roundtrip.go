package vc

import (
	"fmt"
	"go/types"
	"strings"

	"golang.org/x/tools/go/ssa"
)

// RoundTrip describes a lemma over two real functions: for every x (subject to
// Requires), From(To(x)) == x on all scalar leaves of x's type.
type RoundTrip struct {
	Name     string `json:"name"`
	To       string `json:"to"`       // e.g. zoekt.(*Stats).ToProto
	From     string `json:"from"`     // e.g. zoekt.StatsFromProto
	Requires string `json:"requires"` // spec expression over x (optional)
	Skip     []string `json:"skip"`   // leaf paths not compared (with reason in the props file)
}

// VerifyRoundTrip generates one obligation per scalar leaf of the value type:
// the two real function bodies are executed symbolically one after the other
// (inlined; their callees through contracts/stdspecs as usual).
func (e *Engine) VerifyRoundTrip(rt RoundTrip) (*VC, error) {
	toFn, fromFn := e.funcs[rt.To], e.funcs[rt.From]
	if toFn == nil || fromFn == nil {
		return nil, fmt.Errorf("round trip %s: function not found (%s / %s)", rt.Name, rt.To, rt.From)
	}
	if len(toFn.Params) != 1 || len(fromFn.Params) < 1 {
		return nil, fmt.Errorf("round trip %s: unexpected signatures", rt.Name)
	}
	spec := &FuncSpec{Name: "roundtrip:" + rt.Name, Loops: map[int]*LoopSpec{}, Flags: map[string]string{}}
	vc := e.NewVC(toFn, spec)
	vc.Variant = "#roundtrip." + rt.Name
	st := &State{H: map[string]string{}, Top: "top_0"}
	vc.declare("top_0", "Int")
	vc.assert("(>= top_0 1000000)")
	for _, s := range HeapSorts {
		st.H[s] = "H_" + s + "_0"
		vc.declare(st.H[s], "(Array Loc "+s+")")
	}
	vc.Entry = st
	vc.preregisterMaps(toFn, 0, map[*ssa.Function]bool{})
	vc.preregisterMaps(fromFn, 0, map[*ssa.Function]bool{})
	for _, k := range vc.extraOrder {
		st.H[k] = k + "_0"
	}
	vc.assertHeapWF(st, nil)
	f0 := vc.newFrame(toFn, nil, false, "true", 0)
	f0.entry = st.Clone()
	xt := toFn.Params[0].Type()
	x := f0.freshVal("x", xt, "true", st)
	vc.Params["x"] = x
	vc.ParamOrder = []string{"x"}
	var valT types.Type = xt
	isPtr := false
	if p, ok := xt.Underlying().(*types.Pointer); ok {
		valT = p.Elem()
		isPtr = true
		vc.assert(Not(Eq(x.T, "Null")))
	}
	env := &Env{vc: vc, st: st, old: st, vars: map[string]Val{"x": x}, fn: toFn}
	if strings.TrimSpace(rt.Requires) != "" {
		ex, err := ParseSpecExpr(rt.Requires)
		if err != nil {
			return nil, fmt.Errorf("round trip %s: requires: %v", rt.Name, err)
		}
		vc.assert(vc.evalSpec(env, ex).T)
	}
	// original leaf values, read from the entry state
	type leafVal struct {
		path string
		term string
		srt  string
	}
	var orig []leafVal
	var collect func(term string, loc string, t types.Type, path string)
	collect = func(term, loc string, t types.Type, path string) {
		switch u := t.Underlying().(type) {
		case *types.Struct:
			sn := vc.sorts.SortOf(t)
			for i := 0; i < u.NumFields(); i++ {
				var ft, fl string
				if loc != "" {
					fl = App("Fld", loc, fmt.Sprint(vc.sorts.FieldID(t, i)))
				} else {
					ft = App(fmt.Sprintf("%s.f%d", sn, i), term)
				}
				collect(ft, fl, u.Field(i).Type(), path+"."+u.Field(i).Name())
			}
		case *types.Basic:
			srt := vc.sorts.SortOf(t)
			if loc != "" {
				term = App("select", st.H[srt], loc)
			}
			orig = append(orig, leafVal{path, term, srt})
		}
	}
	if isPtr {
		collect("", x.T, valT, "x")
	} else {
		collect(x.T, "", valT, "x")
	}
	vc.flushSortDecls()
	site := toFn.Blocks[0].Instrs[0]
	cur := st.Clone()
	mid := f0.inlineCall(toFn, nil, []Val{x}, "true", cur, site)
	args := []Val{mid}
	for i := 1; i < len(fromFn.Params); i++ {
		args = append(args, f0.freshVal(fmt.Sprintf("extra%d", i), fromFn.Params[i].Type(), "true", cur))
	}
	back := f0.inlineCall(fromFn, nil, args, "true", cur, site)
	// leaves of the result
	var res []leafVal
	bt := fromFn.Signature.Results().At(0).Type()
	orig2 := orig
	orig = nil
	if p, ok := bt.Underlying().(*types.Pointer); ok {
		vc.oblige("roundtrip", rt.Name+":non-nil", "true", Not(Eq(back.T, "Null")), "", "the decoded value is not nil")
		stSave := st
		st = cur
		collect("", back.T, p.Elem(), "x")
		st = stSave
	} else {
		collect(back.T, "", bt, "x")
	}
	res = orig
	orig = orig2
	skip := map[string]bool{}
	for _, s := range rt.Skip {
		skip[s] = true
	}
	byPath := map[string]leafVal{}
	for _, r := range res {
		byPath[r.path] = r
	}
	n := 0
	for _, o := range orig {
		if skip[o.path] {
			continue
		}
		r, ok := byPath[o.path]
		if !ok {
			continue
		}
		vc.oblige("roundtrip", rt.Name+":"+strings.TrimPrefix(o.path, "x."), "true", Eq(r.term, o.term), "", fmt.Sprintf("%s(%s(x))%s == x%s", shortFuncName(rt.From), shortFuncName(rt.To), strings.TrimPrefix(o.path, "x"), strings.TrimPrefix(o.path, "x")))
		n++
	}
	if n == 0 {
		vc.unsupported("round trip %s: no comparable scalar leaf", rt.Name)
	}
	return vc, nil
}

func shortFuncName(s string) string {
	if i := strings.LastIndex(s, "."); i >= 0 {
		return s[i+1:]
	}
	return s
}
