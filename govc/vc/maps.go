package vc

import (
	"go/token"
	"strings"
	"fmt"
	"go/types"

	"golang.org/x/tools/go/ssa"
)

// Map model: a map value is a reference (Loc). For key sort K and value sort V
// the contents live in heaps MV_K_V : Loc -> (Array K V) and MP_K : Loc ->
// (Array K Bool) (presence); MC : Loc -> Int is the cardinality. Struct-valued
// maps use the struct datatype as V.

func (vc *VC) mapHeaps(t types.Type) (mv, mp, ks, vs string) {
	m := t.Underlying().(*types.Map)
	ks, vs = vc.sorts.SortOf(m.Key()), vc.sorts.SortOf(m.Elem())
	vc.flushSortDecls()
	mv = "MV_" + sanitize(ks) + "_" + sanitize(vs)
	mp = "MP_" + sanitize(ks)
	if vc.mapKeySort == nil {
		vc.mapKeySort = map[string]string{}
	}
	vc.mapKeySort[mv] = ks
	vc.registerHeap(mv, fmt.Sprintf("(Array %s %s)", ks, vs))
	vc.registerHeap(mp, fmt.Sprintf("(Array %s Bool)", ks))
	vc.registerHeap("MC", "Int")
	return
}

func (vc *VC) mapInitEmpty(st *State, loc string, t types.Type, guard string) {
	_, mp, ks, _ := vc.mapHeaps(t)
	// no key is present (stated pointwise: constant-array terms make the
	// solvers' array theory report "incomplete")
	sel := App("select", App("select", vc.heapOf(st, mp), loc), "k!")
	vc.assume(guard, fmt.Sprintf("(forall ((k! %s)) (! (not %s) :pattern (%s)))", ks, sel, sel))
	vc.assume(guard, Eq(App("select", vc.heapOf(st, "MC"), loc), "0"))
}

func (vc *VC) mapLen(st *State, m Val) string {
	vc.mapHeaps(m.Typ)
	return Ite(Eq(m.T, "Null"), "0", App("select", vc.heapOf(st, "MC"), m.T))
}

func (vc *VC) mapHas(st *State, m Val, k string) string {
	_, mp, _, _ := vc.mapHeaps(m.Typ)
	return And(Not(Eq(m.T, "Null")), App("select", App("select", vc.heapOf(st, mp), m.T), k))
}

func (vc *VC) mapGet(st *State, m Val, k string) Val {
	mv, _, _, _ := vc.mapHeaps(m.Typ)
	et := m.Typ.Underlying().(*types.Map).Elem()
	return Val{T: Ite(vc.mapHas(st, m, k), App("select", App("select", vc.heapOf(st, mv), m.T), k), vc.zeroVal(et)), Typ: et}
}

func (vc *VC) mapModPats(t types.Type) []modPat {
	mv, mp, _, _ := vc.mapHeaps(t)
	return []modPat{{sort: mv, all: true}, {sort: mp, all: true}, {sort: "MC", all: true}}
}

func (f *frame) execLookup(x *ssa.Lookup, in string, st *State) {
	vc := f.vc
	xv := f.val(x.X)
	iv := f.val(x.Index)
	if _, isMap := x.X.Type().Underlying().(*types.Map); !isMap {
		// string index with comma-ok does not exist; plain string index is ssa.Index/Lookup
		vc.obligeIn(f, "bounds", vc.anchorAt(f.fn, x.Pos(), "index"), in, And(App("<=", "0", iv.T), App("<", iv.T, App("str.len_", xv.T))), x.Pos(), "string index in range")
		f.name(x, App("str.at_", xv.T, iv.T))
		return
	}
	v := vc.mapGet(st, xv, iv.T)
	et := x.X.Type().Underlying().(*types.Map).Elem()
	vn := vc.define(f.prefix+x.Name(), vc.sorts.SortOf(et), v.T)
	vc.assumeTypeInv(vn, et, in, st.Top)
	if x.CommaOk {
		ok := vc.define(f.prefix+x.Name()+"_ok", "Bool", vc.mapHas(st, xv, iv.T))
		f.vals[x] = Val{Typ: x.Type(), Tuple: []Val{{T: vn, Typ: et}, {T: ok, Typ: types.Typ[types.Bool]}}}
		return
	}
	f.vals[x] = Val{T: vn, Typ: x.Type()}
}

func (f *frame) execMapUpdate(x *ssa.MapUpdate, in string, st *State) {
	vc := f.vc
	m := f.val(x.Map)
	k := f.val(x.Key).T
	v := f.val(x.Value).T
	vc.obligeIn(f, "nil", "mapstore:"+vc.anchorAt(f.fn, x.Pos(), "index"), in, Not(Eq(m.T, "Null")), x.Pos(), "assignment to entry in possibly nil map")
	mv, mp, _, _ := vc.mapHeaps(m.Typ)
	if len(f.declFrames) > 0 {
		f.checkMapWrite(x.Block(), m, in, x.Pos(), "mapupdate:"+vc.anchorAt(f.fn, x.Pos(), "index"))
	}
	had := App("select", App("select", vc.heapOf(st, mp), m.T), k)
	newC := Ite(had, App("select", vc.heapOf(st, "MC"), m.T), App("+", App("select", vc.heapOf(st, "MC"), m.T), "1"))
	vc.setHeap(st, "MC", App("store", vc.heapOf(st, "MC"), m.T, newC))
	vc.setHeap(st, mv, App("store", vc.heapOf(st, mv), m.T, App("store", App("select", vc.heapOf(st, mv), m.T), k, v)))
	vc.setHeap(st, mp, App("store", vc.heapOf(st, mp), m.T, App("store", App("select", vc.heapOf(st, mp), m.T), k, "true")))
}

func (f *frame) execMapDelete(args []Val, in string, st *State) {
	vc := f.vc
	m, k := args[0], args[1].T
	_, mp, _, _ := vc.mapHeaps(m.Typ)
	if len(f.declFrames) > 0 && f.curBlock != nil {
		f.checkMapWrite(f.curBlock, m, in, token.NoPos, "delete")
	}
	had := vc.mapHas(st, m, k)
	newC := Ite(had, App("-", App("select", vc.heapOf(st, "MC"), m.T), "1"), App("select", vc.heapOf(st, "MC"), m.T))
	// delete on a nil map is a no-op. The cells of the Null reference are never
	// read as "present" (mapHas requires a non-nil map), so the stores need no
	// guard - array-valued ite terms make the solvers' array theory incomplete.
	vc.setHeap(st, "MC", App("store", vc.heapOf(st, "MC"), m.T, newC))
	vc.setHeap(st, mp, App("store", vc.heapOf(st, mp), m.T, App("store", App("select", vc.heapOf(st, mp), m.T), k, "false")))
}

func (vc *VC) setHeap(st *State, key, term string) {
	st.H[key] = vc.define("h"+key, vc.heapSort(key), term)
}

// execRange / execNext: iteration over maps and strings is abstract: each
// Next yields an arbitrary (ok, key, value) consistent with the container.
func (f *frame) execRange(x *ssa.Range, in string, st *State) {
	f.vals[x] = Val{T: f.val(x.X).T, Typ: x.X.Type()}
	if _, isMap := x.X.Type().Underlying().(*types.Map); isMap {
		// ghost "visited" key set of this iteration, kept at a fixed ghost cell
		// of the key-presence heap; starts empty
		vc := f.vc
		_, mp, ks, _ := vc.mapHeaps(x.X.Type())
		loc := f.visLocOf(x)
		e := vc.fresh(f.prefix+x.Name()+"_vis0", fmt.Sprintf("(Array %s Bool)", ks))
		sel := App("select", e, "k!")
		vc.assert(fmt.Sprintf("(forall ((k! %s)) (! (not %s) :pattern (%s)))", ks, sel, sel))
		st.H[mp] = vc.define(f.prefix+"hVis", vc.heapSort(mp), App("store", vc.heapOf(st, mp), loc, e))
	}
}

func (f *frame) visLocOf(x *ssa.Range) string {
	return f.vc.fixedLoc("vis:"+f.prefix+x.Name(), true)
}

// mapModifiedInLoopOf: does the loop around the Next of range r update or
// delete from a map of the same type (then exhaustiveness of the iteration is
// not assumed)?
func (f *frame) mapModifiedAround(x *ssa.Next, mt types.Type) bool {
	for _, li := range f.loops {
		if !li.blocks[x.Block()] {
			continue
		}
		for b := range li.blocks {
			for _, ins := range b.Instrs {
				switch y := ins.(type) {
				case *ssa.MapUpdate:
					if types.Identical(y.Map.Type(), mt) {
						return true
					}
				case *ssa.Call:
					if bi, ok := y.Call.Value.(*ssa.Builtin); ok && (bi.Name() == "delete" || bi.Name() == "clear") && len(y.Call.Args) > 0 && types.Identical(y.Call.Args[0].Type(), mt) {
						return true
					}
					if _, ok := y.Call.Value.(*ssa.Builtin); !ok {
						// a call may reach the map: be conservative unless the callee is known not to write maps
						if callee := y.Call.StaticCallee(); callee == nil || !f.vc.calleeLeavesMapsAlone(callee) {
							return true
						}
					}
				}
			}
		}
	}
	return false
}

func (vc *VC) calleeLeavesMapsAlone(callee *ssa.Function) bool {
	if spec := vc.calleeSpec(FuncName(callee)); spec != nil && spec.HasAssign {
		for _, c := range spec.Assigns {
			if strings.Contains(c.Text, "mapof(") {
				return false
			}
		}
		return true
	}
	full := callee.RelString(nil)
	if o := callee.Origin(); o != nil {
		full = o.RelString(nil)
	}
	return vc.isPureExternal(full)
}

func (f *frame) execNext(x *ssa.Next, in string, st *State) {
	vc := f.vc
	it := f.val(x.Iter)
	ok := vc.fresh(f.prefix+x.Name()+"_ok", "Bool")
	tup := x.Type().(*types.Tuple)
	if x.IsString {
		k := vc.fresh(f.prefix+x.Name()+"_k", "Int")
		r := vc.fresh(f.prefix+x.Name()+"_r", "Int")
		vc.assume(And(in, ok), And(App("<=", "0", k), App("<", k, App("str.len_", it.T)), App("<=", "0", r), App("<=", r, "1114111")))
		f.vals[x] = Val{Typ: x.Type(), Tuple: []Val{{T: ok, Typ: tup.At(0).Type()}, {T: k, Typ: tup.At(1).Type()}, {T: r, Typ: tup.At(2).Type()}}}
		vc.note("range over string in %s: iteration order/decoding abstracted (index in range, rune arbitrary)", FuncName(f.fn))
		return
	}
	mt := it.Typ
	m := mt.Underlying().(*types.Map)
	kv := f.freshVal(x.Name()+"_k", m.Key(), in, st)
	g := vc.mapGet(st, Val{T: it.T, Typ: mt}, kv.T)
	vc.assume(And(in, ok), vc.mapHas(st, Val{T: it.T, Typ: mt}, kv.T))
	vn := vc.define(f.prefix+x.Name()+"_v", vc.sorts.SortOf(m.Elem()), g.T)
	vc.assumeTypeInv(vn, m.Elem(), And(in, ok), st.Top)
	vc.assume(And(in, ok), App(">", vc.mapLen(st, Val{T: it.T, Typ: mt}), "0"))
	if rg, isRange := x.Iter.(*ssa.Range); isRange {
		// visited set: the yielded key is new; when the iteration ends every
		// present key has been yielded (unless the loop may change the key set)
		_, mp, ks, _ := vc.mapHeaps(mt)
		loc := f.visLocOf(rg)
		vis := vc.define(f.prefix+x.Name()+"_vis", fmt.Sprintf("(Array %s Bool)", ks), App("select", vc.heapOf(st, mp), loc))
		vc.assume(And(in, ok), Not(App("select", vis, kv.T)))
		if !f.mapModifiedAround(x, mt) {
			hk := vc.mapHas(st, Val{T: it.T, Typ: mt}, "k!")
			vc.assume(And(in, Not(ok)), fmt.Sprintf("(forall ((k! %s)) (! (=> %s (select %s k!)) :pattern ((select %s k!))))", ks, hk, vis, vis))
			vc.note("range over map in %s: exhaustive (the loop does not change the key set); ghost visited set available as visited(k)", FuncName(f.fn))
		}
		st.H[mp] = vc.define(f.prefix+"hVis", vc.heapSort(mp), App("store", vc.heapOf(st, mp), loc, Ite(ok, App("store", vis, kv.T, "true"), vis)))
	}
	vc.note("range over map in %s: each iteration yields an arbitrary present key (order and exhaustiveness abstracted)", FuncName(f.fn))
	f.vals[x] = Val{Typ: x.Type(), Tuple: []Val{{T: ok, Typ: tup.At(0).Type()}, {T: kv.T, Typ: tup.At(1).Type()}, {T: vn, Typ: tup.At(2).Type()}}}
}

// ---- dynamic heap registry (map heaps) ----

func (vc *VC) registerHeap(key, elemSort string) {
	if vc.extraHeaps == nil {
		vc.extraHeaps = map[string]string{}
	}
	if _, ok := vc.extraHeaps[key]; ok {
		return
	}
	vc.extraHeaps[key] = elemSort
	vc.extraOrder = append(vc.extraOrder, key)
	vc.flushSortDecls()
	vc.lines = append(vc.lines, fmt.Sprintf("(declare-fun %s_0 () (Array Loc %s))", key, elemSort))
	if key == "MC" {
		vc.lines = append(vc.lines, "(assert (forall ((l! Loc)) (! (>= (select MC_0 l!) 0) :pattern ((select MC_0 l!)))))")
	}
	if vc.Entry != nil {
		vc.Entry.H[key] = key + "_0"
	}
}

func (vc *VC) heapSort(key string) string {
	if s, ok := vc.extraHeaps[key]; ok {
		return "(Array Loc " + s + ")"
	}
	return "(Array Loc " + key + ")"
}

func (vc *VC) heapOf(st *State, key string) string {
	if h, ok := st.H[key]; ok {
		return h
	}
	return key + "_0"
}

// preregisterMaps registers the heaps of every map type mentioned in fn and
// its statically reachable callees, so that havocs cover them.
func (vc *VC) preregisterMaps(fn *ssa.Function, depth int, seen map[*ssa.Function]bool) {
	if fn == nil || seen[fn] || depth > 4 {
		return
	}
	seen[fn] = true
	visit := func(t types.Type) {
		var rec func(t types.Type, d int)
		rec = func(t types.Type, d int) {
			if d > 4 || t == nil {
				return
			}
			switch u := t.Underlying().(type) {
			case *types.Map:
				vc.mapHeaps(t)
				rec(u.Elem(), d+1)
			case *types.Pointer:
				rec(u.Elem(), d+1)
			case *types.Slice:
				rec(u.Elem(), d+1)
			case *types.Struct:
				for i := 0; i < u.NumFields(); i++ {
					rec(u.Field(i).Type(), d+1)
				}
			}
		}
		rec(t, 0)
	}
	for _, p := range fn.Params {
		visit(p.Type())
	}
	for _, b := range fn.Blocks {
		for _, ins := range b.Instrs {
			if v, ok := ins.(ssa.Value); ok {
				if _, isTuple := v.Type().(*types.Tuple); !isTuple {
					visit(v.Type())
				}
			}
			if c, ok := ins.(ssa.CallInstruction); ok {
				if callee := c.Common().StaticCallee(); callee != nil && callee.Blocks != nil {
					vc.preregisterMaps(callee, depth+1, seen)
				}
			}
			if mc, ok := ins.(*ssa.MakeClosure); ok {
				vc.preregisterMaps(mc.Fn.(*ssa.Function), depth+1, seen)
			}
		}
	}
}
